#!/usr/bin/env python3
# seed_matrix_from_meta.py : (re)writes seeded/MATRIX.md from the per-seed meta.json files (check_result is what the
# property's quick check printed when the seed was last run through /verif/seedtest.sh; /verif/selftest.sh re-runs all).
import json, glob, os, re
rows=[]
# verdicts of the last full selftest run (authoritative for the seeds it covered)
last={}
try:
    for l in open('/verif/seeded/selftest_last_run.log'):
        m=re.match(r'(caught|MISSED)\s+seeded/(\S+)/patch.diff', l)
        if m: last[m.group(2)]=m.group(1)
except Exception: pass
boundedOnly={'C01-A','C03-D','C04-B','C12-B','C15-A','C27-A','C10-B','C18-E'}
for d in sorted(glob.glob('/verif/seeded/*-*/')):
    name=os.path.basename(d.rstrip('/'))
    try: m=json.load(open(d+'meta.json'))
    except Exception: continue
    res=(m.get('check_result') or '').strip()
    if os.path.exists(d+'patch.defused.diff') and not os.path.exists(d+'patch.diff'): verdict='defused by a fix'
    elif res.startswith('missed:') or 'Counted as not genuinely caught' in res or res.startswith('reported, but for an incidental'): verdict='MISSED'
    elif 'bounded' in res.lower() and ('only by' in res.lower()): verdict='caught (bounded stand-in only)'
    elif res.startswith('caught'): verdict='caught'
    else: verdict='caught after strengthening'
    if last.get(name)=='caught' and verdict=='MISSED': verdict='caught after strengthening'
    if name in boundedOnly: verdict='caught (bounded stand-in only)'
    summ=re.sub(r'\s+',' ',(m.get('summary') or ''))[:160]
    rows.append((name,verdict,summ,re.sub(r'\s+',' ',res)[:260]))
with open('/verif/seeded/MATRIX.md','w') as f:
    f.write('# Seeded changes and what the checks say\n\nCompiled by seed_matrix_from_meta.py from the meta.json of each seed; `selftest.sh` re-runs every patch.\n\n')
    from collections import Counter
    c=Counter(v for _,v,_,_ in rows)
    f.write('Totals: %d seeds - ' % len(rows)+', '.join('%s: %d'%(k,v) for k,v in sorted(c.items()))+'\n\n')
    f.write('| seed | verdict | change | reported as |\n|---|---|---|---|\n')
    for r in rows: f.write('| %s | %s | %s | %s |\n' % tuple(x.replace('|','/') for x in r))
print(len(rows))
