#!/bin/bash
# Builds the verification engine and warms Go's build cache. Offline; idempotent.
set -e
cd "$(dirname "$0")"
export PATH=/opt/veriftools/go1.26.8/bin:$PATH GOTOOLCHAIN=local GOPROXY=off GOSUMDB=off
mkdir -p bin evidence replays
( cd govc && GOFLAGS=-mod=mod go build -o ../bin/govc . )
# warm export data for the packages the checks load (never -mod=mod inside /repo)
( cd /repo && env -u GOFLAGS go list -export -deps -tags verif ./internal/... ./cmd/... >/dev/null 2>&1 || true )
echo "setup ok"
