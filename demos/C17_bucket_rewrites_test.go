package api

// Demonstrations for the C17 known findings on the time_bucket / date_trunc performance rewrites. Each test
// evaluates, in the real DuckDB (the repository's own driver), the ORIGINAL expression and the text the real
// rewriteDateTrunc / rewriteTimeBucket produce for it, on one timestamp, and compares the instants.

import (
	"database/sql"
	"testing"

	_ "github.com/duckdb/duckdb-go/v2"
)

func verifEpochUS(t *testing.T, db *sql.DB, expr string) int64 {
	var us int64
	if err := db.QueryRow("SELECT epoch_us(CAST(" + expr + " AS TIMESTAMP))").Scan(&us); err != nil {
		t.Fatalf("%s: %v", expr, err)
	}
	return us
}

func verifCompare(t *testing.T, original string, rewrite func(string) string) {
	db, err := sql.Open("duckdb", "?TimeZone=UTC")
	if err != nil {
		db, err = sql.Open("duckdb", "")
	}
	if err != nil {
		t.Fatal(err)
	}
	defer db.Close()
	db.Exec("SET TimeZone='UTC'")
	rewritten := rewrite(original)
	if rewritten == original {
		t.Fatalf("the expression was not rewritten: %s", original)
	}
	want, got := verifEpochUS(t, db, original), verifEpochUS(t, db, rewritten)
	if want != got {
		t.Fatalf("DuckDB evaluates\n  original  %s  to %d us\n  rewritten %s  to %d us", original, want, rewritten, got)
	}
}

// ::BIGINT rounds epoch() to the nearest second, so a timestamp in the last half second of a bucket moves up.
func TestVerifDemoBucketSubsecondRounding(t *testing.T) {
	verifCompare(t, "date_trunc('hour', TIMESTAMP '2024-03-15 10:59:59.7')", rewriteDateTrunc)
}

// `//` truncates toward zero, so timestamps before 1970 are bucketed upward instead of downward.
func TestVerifDemoBucketBefore1970(t *testing.T) {
	verifCompare(t, "date_trunc('hour', TIMESTAMP '1969-12-31 22:10:00')", rewriteDateTrunc)
}

// time_bucket counts buckets from 2000-01-03 (a Monday); the rewrite counts from 1970-01-01 (a Thursday).
func TestVerifDemoBucketOrigin(t *testing.T) {
	verifCompare(t, "time_bucket(INTERVAL '1 week', TIMESTAMP '2024-03-15 10:30:00')", rewriteTimeBucket)
}
