package ingest

// Demonstration for C01: line protocol allows '=' inside a tag key, tag value or field key when written as `\=`.
// Arc splits every `key=value` component at the FIRST '=' byte, escaped or not, so an escaped '=' in a key
// moves the split point: the key is cut short and the rest of the key lands in the value.

import "testing"

func TestVerifDemoEscapedEqualsInKey(t *testing.T) {
	p := NewLineProtocolParser()
	rec := p.ParseLine([]byte(`m,a\=b=c x\=y=1i 1700000000000000000`))
	if rec == nil {
		t.Fatal("valid point dropped")
	}
	t.Logf("tags=%q fields=%v", rec.Tags, rec.Fields)
	if v, ok := rec.Tags["a=b"]; !ok || v != "c" {
		t.Errorf(`tag key "a=b" (written a\=b) with value "c" expected; got tags %q`, rec.Tags)
	}
	if v, ok := rec.Fields["x=y"]; !ok || v != int64(1) {
		t.Errorf(`field key "x=y" (written x\=y) with value 1 expected; got fields %v`, rec.Fields)
	}
}
