package api

// Demonstration for C15 (`strip-comments-drops-byte-after-block-comment`, fixed): stripSQLComments decided that a
// block comment was unterminated by looking at where the scan stopped (`i+1 >= len(sql)`), which is also true when
// the comment is properly closed and exactly one character follows it — that character, which is outside any
// comment, was dropped.

import "testing"

func TestVerifDemoStripCommentsKeepsTrailingByte(t *testing.T) {
	for _, tc := range []struct{ in, want string }{
		{"SELECT (1 /* one */)", "SELECT (1  )"},
		{"SELECT 1 /* c */;", "SELECT 1  ;"},
		{"SELECT 1 /* c */ ;", "SELECT 1   ;"},
		{"SELECT 1 /* unterminated", "SELECT 1  "},
	} {
		if got := stripSQLComments(tc.in, true); got != tc.want {
			t.Errorf("stripSQLComments(%q) = %q, want %q (a character outside the comment was removed)", tc.in, got, tc.want)
		}
	}
}
