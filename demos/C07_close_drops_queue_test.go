package ingest

// Demonstration for C07 (`shutdown-purge-after-dropped-queue`, fixed): Close() lets the flush workers exit and
// leaves whatever is still in the flush queue unflushed ("dropped in favour of WAL replay"). The graceful
// shutdown hook in cmd/arc/main.go then purged ALL WAL files, so those acknowledged rows were lost at a clean
// shutdown. The repair makes Close record the situation as a flush failure (and the hook consult it); this test
// checks the signal on the real ArrowBuffer: tasks left in the queue at Close => HasFlushFailure().

import (
	"context"
	"testing"
	"time"

	"github.com/basekick-labs/arc/internal/config"
	"github.com/rs/zerolog"
)

// gatedStorage: every Write blocks until the gate opens, then succeeds (whatever the context says), so that no
// flush ever FAILS in this test — the only thing that can go wrong is tasks never being processed.
type gatedStorage struct {
	*hangingStorageBackend
	gate chan struct{}
}

func (g *gatedStorage) Write(ctx context.Context, path string, data []byte) error {
	<-g.gate
	return nil
}

func TestVerifDemoCloseReportsDroppedQueue(t *testing.T) {
	store := &gatedStorage{hangingStorageBackend: newHangingStorage(1<<30, 0), gate: make(chan struct{})}
	cfg := &config.IngestConfig{MaxBufferSize: 100, MaxBufferAgeMS: 600000, Compression: "snappy", FlushWorkers: 1, FlushQueueSize: 64, ShardCount: 1}
	buf := NewArrowBuffer(cfg, store, zerolog.Nop())
	buf.SetWAL(nopWAL{}) // rows are WAL-protected, so leaving them to WAL replay is legitimate
	for i := 0; i < 40; i++ {
		if err := buf.WriteColumnarDirect(context.Background(), "db", "m1", makeColumns(100)); err != nil {
			t.Fatal(err)
		}
	}
	time.Sleep(100 * time.Millisecond) // the single worker is now blocked in storage with task 1; 39 tasks wait
	done := make(chan struct{})
	go func() { _ = buf.Close(); close(done) }()
	time.Sleep(200 * time.Millisecond) // Close has cancelled the workers' context and waits for them
	close(store.gate)                  // storage comes back: every write now succeeds
	<-done
	left := buf.GetStats()["flush_queue_depth"].(int64)
	if left == 0 {
		t.Skip("the worker happened to drain the whole queue before it noticed the cancellation; nothing to demonstrate")
	}
	if !buf.HasFlushFailure() {
		t.Fatalf("Close() returned with %d flush tasks never processed and no flush failed, yet HasFlushFailure() is false: the shutdown hook purges the WAL and the rows of those tasks exist nowhere", left)
	}
}

type nopWAL struct{}

func (nopWAL) Append(records []map[string]interface{}) error           { return nil }
func (nopWAL) AppendRaw(payload []byte) error                          { return nil }
func (nopWAL) AppendRawWithMeta(database string, payload []byte) error { return nil }
func (nopWAL) Stats() map[string]interface{}                           { return nil }
func (nopWAL) Close() error                                            { return nil }
