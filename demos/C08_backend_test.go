package storage

// Demonstrations for C08 on the real LocalBackend.

import (
	"bytes"
	"context"
	"os"
	"path/filepath"
	"testing"

	"github.com/rs/zerolog"
)

// A reader that ends early without an error must not be promoted as the complete file.
func TestVerifWriteReaderShortRead(t *testing.T) {
	root := t.TempDir()
	b, err := NewLocalBackend(root, zerolog.Nop())
	if err != nil {
		t.Fatal(err)
	}
	err = b.WriteReader(context.Background(), "db/m/f.parquet", bytes.NewReader([]byte("abc")), 10)
	_, statErr := os.Stat(filepath.Join(root, "db/m/f.parquet"))
	if err == nil && statErr == nil {
		t.Fatalf("a 3-byte stream declared as 10 bytes was promoted to the final path")
	}
}

// The key that resolves to the root itself makes the staging path a sibling of the root.
func TestVerifRootKeyEscapes(t *testing.T) {
	parent := t.TempDir()
	root := filepath.Join(parent, "data")
	if err := os.MkdirAll(root, 0o700); err != nil {
		t.Fatal(err)
	}
	b, err := NewLocalBackend(root, zerolog.Nop())
	if err != nil {
		t.Fatal(err)
	}
	_ = b.WriteReader(context.Background(), "", bytes.NewReader([]byte("attacker-bytes")), 14)
	ents, _ := os.ReadDir(parent)
	for _, e := range ents {
		if e.Name() != "data" {
			t.Fatalf("file %q was created outside the storage root %q", e.Name(), root)
		}
	}
}
