package raft

// History replay for C22 (`update-token-stores-a-name-restore-refuses`): CommandUpdateToken with "name" among the
// changed fields stored whatever name the payload carried - also the empty name, or one longer than 256 bytes.
// CommandCreateToken and Restore both refuse such a name (validateTokenEntry), and Restore silently drops the
// token: a node that replays the log keeps the token (it goes on authenticating), a node that installs a snapshot
// of the same log has lost it.

import (
	"bytes"
	"encoding/json"
	"io"
	"testing"

	hraft "github.com/hashicorp/raft"
	"github.com/rs/zerolog"
)

type verifDemoSink struct{ bytes.Buffer }

func (s *verifDemoSink) ID() string    { return "verif" }
func (s *verifDemoSink) Cancel() error { return nil }
func (s *verifDemoSink) Close() error  { return nil }

func TestVerifUpdateTokenNameSurvivesSnapshot(t *testing.T) {
	for _, newName := range []string{"", string(bytes.Repeat([]byte("n"), 257))} {
		f := NewClusterFSM(zerolog.Nop())
		idx := uint64(10)
		apply := func(typ CommandType, payload interface{}) interface{} {
			pb, _ := json.Marshal(payload)
			cb, _ := json.Marshal(Command{Type: typ, Payload: pb})
			idx++
			return f.Apply(&hraft.Log{Data: cb, Index: idx})
		}
		tok := TokenEntry{ID: 5, Name: "t1", TokenHash: "h", TokenPrefix: "p", Permissions: "read", CreatedAtUnixNano: 1_700_000_000_000_000_000, Enabled: true}
		if res := apply(CommandCreateToken, CreateTokenPayload{Token: tok}); res != nil {
			if err, ok := res.(error); ok && err != nil {
				t.Fatalf("create rejected: %v", err)
			}
		}
		f.mu.RLock()
		var id int64
		for k := range f.tokens {
			id = k
		}
		f.mu.RUnlock()
		res := apply(CommandUpdateToken, UpdateTokenPayload{ID: id, Name: newName, ChangedFields: []string{"name"}})
		if err, ok := res.(error); ok && err != nil {
			continue // refused: every node refuses alike
		}
		snap, err := f.Snapshot()
		if err != nil {
			t.Fatal(err)
		}
		sink := &verifDemoSink{}
		if err := snap.Persist(sink); err != nil {
			t.Fatal(err)
		}
		g := NewClusterFSM(zerolog.Nop())
		if err := g.Restore(io.NopCloser(bytes.NewReader(sink.Bytes()))); err != nil {
			t.Fatal(err)
		}
		f.mu.RLock()
		_, onReplayer := f.tokens[id]
		f.mu.RUnlock()
		g.mu.RLock()
		_, onRestorer := g.tokens[id]
		g.mu.RUnlock()
		if onReplayer != onRestorer {
			t.Fatalf("update-token to a name of %d bytes was accepted; the node that replayed the log has token %d: %v, the node that restored the snapshot of it: %v", len(newName), id, onReplayer, onRestorer)
		}
	}
}
