package ingest

// Demonstration for C07 (`nowal-queue-full-drop-acknowledged`, fixed): with the WAL disabled, a write that fills
// the buffer hands the whole buffer to the flush queue; when the queue is full (storage hanging) the rows are
// dropped. Before the fix the write still returned nil. Here every flush task the pool can hold is one worker
// plus the queue; every further acknowledged (nil) write would be rows that exist nowhere.

import (
	"context"
	"testing"
	"time"

	"github.com/basekick-labs/arc/internal/config"
	"github.com/rs/zerolog"
)

func TestVerifDemoNoWALDropIsNotAcknowledged(t *testing.T) {
	store := newHangingStorage(0, 0) // every storage write hangs
	cfg := &config.IngestConfig{MaxBufferSize: 100, MaxBufferAgeMS: 600000, Compression: "snappy", FlushWorkers: 1, FlushQueueSize: 1, ShardCount: 1}
	buf := NewArrowBuffer(cfg, store, zerolog.Nop()) // no WAL configured
	acked := 0
	for i := 0; i < 8; i++ {
		// each write carries exactly MaxBufferSize rows, so each one extracts the buffer and tries to queue it
		if err := buf.WriteColumnarDirect(context.Background(), "db", "m1", makeColumns(100)); err == nil {
			acked++
		}
		time.Sleep(50 * time.Millisecond) // let the single worker pick up what it can
	}
	held := 2 // one task inside the hung worker + one in the queue
	go buf.Close()
	if acked > held {
		t.Fatalf("%d writes were acknowledged but at most %d flush tasks can be held (1 worker + queue of 1) and there is no WAL: %d acknowledged writes' rows exist nowhere", acked, held, acked-held)
	}
}
