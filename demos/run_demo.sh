#!/bin/bash
# run_demo.sh <package-dir-relative-to-/repo> <demo_test.go> <TestName>
# Injects a demonstration test into a package of /repo through -overlay (nothing is written under /repo).
set -e
export PATH=/opt/veriftools/go1.26.8/bin:$PATH GOTOOLCHAIN=local GOPROXY=off GOSUMDB=off; unset GOFLAGS
T=$(mktemp -d); trap 'rm -rf $T' EXIT
cp "$(dirname "$0")/$2" $T/zz_verif_demo_test.go
echo "{\"Replace\": {\"/repo/$1/zz_verif_demo_test.go\": \"$T/zz_verif_demo_test.go\"}}" > $T/ov.json
cd /repo && go test -overlay $T/ov.json -vet=off -count=1 -timeout 300s -run "^$3\$" ./$1
