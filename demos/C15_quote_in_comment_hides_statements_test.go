package api

// Demonstration for C15 (`quote-in-comment-hides-sql-from-validator`): ValidateSQLRequest masked string literals and
// quoted identifiers FIRST and stripped comments AFTERWARDS. A quote character inside a comment (`-- it's`,
// `/* " */`) is not a quote for DuckDB, but the masker paired it with a later quote - or, finding none, swallowed
// the rest of the text into one placeholder. Everything after the comment was thereby hidden from the
// multi-statement check and the dangerous-keyword denylist, while DuckDB executes it.

import (
	"context"
	"database/sql"
	"testing"

	_ "github.com/duckdb/duckdb-go/v2"
)

func TestVerifDemoQuoteInsideCommentDoesNotHideStatements(t *testing.T) {
	db, err := sql.Open("duckdb", "")
	if err != nil {
		t.Fatal(err)
	}
	defer db.Close()
	if _, err := db.Exec("CREATE TABLE audit_log(x INT)"); err != nil {
		t.Fatal(err)
	}
	q := "SELECT 1 -- it's a comment\n; DROP TABLE audit_log"
	// DuckDB's reading: two statements; the second one runs
	if _, err := db.ExecContext(context.Background(), q); err != nil {
		t.Fatalf("DuckDB does not execute %q: %v", q, err)
	}
	var n int
	if err := db.QueryRow("SELECT count(*) FROM information_schema.tables WHERE table_name = 'audit_log'").Scan(&n); err != nil {
		t.Fatal(err)
	}
	if n != 0 {
		t.Fatalf("expected DuckDB to have executed the DROP TABLE hidden behind the comment")
	}
	// the validator's reading of the same text
	for _, text := range []string{q, "SELECT 1 /* \" */ ; DROP TABLE audit_log", "SELECT 1 -- \"\n; ATTACH '/tmp/x.db'"} {
		if err := ValidateSQLRequest(text); err == nil {
			t.Fatalf("ValidateSQLRequest accepts %q: the quote inside the comment hid the second statement and its keyword", text)
		}
	}
}
