package ingest

// Demonstration for C04: a column whose name starts with '_' (or is empty) is left out of the schema signature
// that decides whether two writes to one measurement may share a buffer. If such a column changes its type
// between two requests, both batches land in the same buffer and mergeBatches type-asserts the second batch
// against the first batch's column type — a panic on the flush path (a background goroutine in production:
// the process dies; here it is recovered so the test can report it).

import (
	"context"
	"fmt"
	"testing"

	"github.com/basekick-labs/arc/internal/config"
	"github.com/basekick-labs/arc/internal/storage"
	"github.com/rs/zerolog"
)

func TestVerifDemoUnderscoreColumnTypeChange(t *testing.T) {
	backend, err := storage.NewLocalBackend(t.TempDir(), zerolog.Nop())
	if err != nil {
		t.Fatal(err)
	}
	buf := NewArrowBuffer(&config.IngestConfig{MaxBufferSize: 100000, MaxBufferAgeMS: 600000, FlushWorkers: 1, FlushQueueSize: 4}, backend, zerolog.Nop())
	ctx := context.Background()
	w := func(v interface{}) error {
		return buf.WriteColumnarDirect(ctx, "db", "m", map[string][]interface{}{
			"time":  {int64(1700000000000000)},
			"_note": {v},
		})
	}
	if err := w(int64(1)); err != nil {
		t.Fatalf("first write: %v", err)
	}
	if err := w(float64(1.5)); err != nil {
		t.Logf("second write rejected (fine): %v", err)
		return
	}
	var panicked interface{}
	func() {
		defer func() { panicked = recover() }()
		_ = buf.FlushAll(ctx)
	}()
	if panicked != nil {
		t.Fatalf("flush panicked after two accepted writes: %v", fmt.Sprint(panicked))
	}
}
