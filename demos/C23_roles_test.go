package raft

// History replays for C23 through the real ClusterFSM.Apply.

import (
	"encoding/json"
	"testing"

	hraft "github.com/hashicorp/raft"
	"github.com/rs/zerolog"
)

func verifApply(t *testing.T, f *ClusterFSM, typ CommandType, payload interface{}) interface{} {
	t.Helper()
	pb, _ := json.Marshal(payload)
	cb, _ := json.Marshal(Command{Type: typ, Payload: pb})
	return f.Apply(&hraft.Log{Data: cb, Index: 1})
}

func verifRoleInv(f *ClusterFSM) string {
	f.mu.RLock()
	defer f.mu.RUnlock()
	for id, n := range f.nodes {
		if n.WriterState == "primary" && id != f.primaryWriterID {
			return "node " + id + " is marked primary but the recorded primary is " + f.primaryWriterID
		}
	}
	if f.primaryWriterID != "" {
		n, ok := f.nodes[f.primaryWriterID]
		if !ok {
			return "recorded primary " + f.primaryWriterID + " is not a member"
		}
		if n.WriterState != "primary" || n.Role != "writer" {
			return "recorded primary " + f.primaryWriterID + " has role/state " + n.Role + "/" + n.WriterState
		}
	}
	return ""
}

func TestVerifPromoteUnknownNode(t *testing.T) {
	f := NewClusterFSM(zerolog.Nop())
	res := verifApply(t, f, CommandPromoteWriter, PromoteWriterPayload{NodeID: "ghost"})
	if msg := verifRoleInv(f); msg != "" {
		t.Fatalf("after a rejected promote (%v): %s", res, msg)
	}
}

func TestVerifRemovePrimary(t *testing.T) {
	f := NewClusterFSM(zerolog.Nop())
	verifApply(t, f, CommandAddNode, AddNodePayload{Node: NodeInfo{ID: "w1", Role: "writer"}})
	verifApply(t, f, CommandPromoteWriter, PromoteWriterPayload{NodeID: "w1"})
	verifApply(t, f, CommandRemoveNode, RemoveNodePayload{NodeID: "w1"})
	if msg := verifRoleInv(f); msg != "" {
		t.Fatalf("after removing the primary: %s", msg)
	}
}

func TestVerifRejoinAsPrimary(t *testing.T) {
	f := NewClusterFSM(zerolog.Nop())
	verifApply(t, f, CommandAddNode, AddNodePayload{Node: NodeInfo{ID: "w1", Role: "writer"}})
	verifApply(t, f, CommandAddNode, AddNodePayload{Node: NodeInfo{ID: "w2", Role: "writer"}})
	verifApply(t, f, CommandPromoteWriter, PromoteWriterPayload{NodeID: "w1"})
	// w2 re-registers with a record that still says "primary" (e.g. it was primary before a partition)
	verifApply(t, f, CommandAddNode, AddNodePayload{Node: NodeInfo{ID: "w2", Role: "writer", WriterState: "primary"}})
	if msg := verifRoleInv(f); msg != "" {
		t.Fatalf("after a re-add carrying WriterState=primary: %s", msg)
	}
}
