package raft

// History replay for C22 through the real ClusterFSM.Apply: the per-database index must agree with the
// manifest after an update-file command too (it is what GetFilesByDatabase and Restore rebuild from).

import (
	"encoding/json"
	"testing"
	"time"

	hraft "github.com/hashicorp/raft"
	"github.com/rs/zerolog"
)

func TestVerifUpdateFileKeepsIndex(t *testing.T) {
	f := NewClusterFSM(zerolog.Nop())
	apply := func(typ CommandType, payload interface{}) interface{} {
		pb, _ := json.Marshal(payload)
		cb, _ := json.Marshal(Command{Type: typ, Payload: pb})
		return f.Apply(&hraft.Log{Data: cb, Index: 7})
	}
	fe := FileEntry{Path: "x/cpu/2026/01/01/00/a.parquet", Database: "", Measurement: "cpu", CreatedAt: time.Unix(1800000000, 0).UTC(), SizeBytes: 10}
	if res := apply(CommandUpdateFile, UpdateFilePayload{File: fe}); res != nil {
		t.Fatalf("update rejected: %v", res)
	}
	f.mu.RLock()
	defer f.mu.RUnlock()
	for p, e := range f.files {
		idx, ok := f.filesByDB[e.Database]
		if !ok {
			t.Fatalf("manifest entry %q (database %q) is in files but its database has no index entry", p, e.Database)
		}
		if _, ok := idx[p]; !ok {
			t.Fatalf("manifest entry %q is missing from the index of database %q", p, e.Database)
		}
	}
}
