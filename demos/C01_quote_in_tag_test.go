package ingest

// Demonstration for the C01 known finding `lp-quote-in-tag-value`: in line protocol a double quote is special
// only inside a string FIELD value; in a measurement name, tag key or tag value it is an ordinary character.
// Arc's splitter toggles its in-quotes state on every '"', so one quote in a tag value swallows the space that
// ends the tag set and the valid point is dropped.

import "testing"

func TestVerifDemoQuoteInTagValue(t *testing.T) {
	p := NewLineProtocolParser()
	rec := p.ParseLine([]byte(`disk,label=6"\ drive used=1i 1700000000000000000`))
	if rec == nil {
		t.Fatalf("valid point dropped (tag value contains a literal double quote)")
	}
	if rec.Tags["label"] != `6" drive` {
		t.Errorf(`tag label = %q, want "6\" drive"`, rec.Tags["label"])
	}
}
