package api

// Demonstration for C14 (`cte-name-read-as-measurement-on-header-path`): with the x-arc-database header set, a WITH
// keyword followed by a newline (or tab) instead of a space was not recognised by the rewrite, which then took the
// CTE name for a measurement and read <header db>/<cte name>; the permission check had skipped that very name as a
// CTE. The caller needs no permission at all on the header database.

import (
	"context"
	"strings"
	"testing"
	"time"

	"github.com/basekick-labs/arc/internal/auth"
	"github.com/basekick-labs/arc/internal/database"
	"github.com/basekick-labs/arc/internal/pruning"
	"github.com/gofiber/fiber/v2"
	"github.com/rs/zerolog"
	"github.com/valyala/fasthttp"
)

type verifDemoDenyAll struct{ asked []string }

func (r *verifDemoDenyAll) IsRBACEnabled() bool { return true }
func (r *verifDemoDenyAll) CheckPermission(req *auth.PermissionCheckRequest) *auth.PermissionCheckResult {
	r.asked = append(r.asked, req.Database+"."+req.Measurement)
	return &auth.PermissionCheckResult{Allowed: false, Source: "rbac", Reason: "no permission"}
}
func (r *verifDemoDenyAll) CheckPermissionsBatch(reqs []*auth.PermissionCheckRequest) []*auth.PermissionCheckResult {
	out := make([]*auth.PermissionCheckResult, len(reqs))
	for i, q := range reqs {
		out[i] = r.CheckPermission(q)
	}
	return out
}

func TestVerifDemoWithNewlineCTEIsNotAMeasurement(t *testing.T) {
	rb := &verifDemoDenyAll{}
	h := &QueryHandler{
		storage:     &mockLocalBackend{basePath: "./data"},
		pruner:      pruning.NewPartitionPruner(zerolog.Nop()),
		logger:      zerolog.Nop(),
		rbacManager: rb,
		queryCache:  database.NewQueryCache(time.Minute, 16),
	}
	app := fiber.New()
	fc := &fasthttp.RequestCtx{}
	fc.Request.Header.Set("x-arc-database", "tenantb")
	c := app.AcquireCtx(fc)
	defer app.ReleaseCtx(c)
	c.Locals("token_info", &auth.TokenInfo{ID: 7, Name: "tenant-a-reader"})

	q := "WITH\nsecretm AS (SELECT 1 AS x) SELECT * FROM secretm"
	if err := ValidateSQLRequest(q); err != nil {
		t.Skipf("rejected up front: %v", err)
	}
	denied := h.checkQueryPermissions(c, q, "read") != nil // a checker that denies everything
	out, _, _ := h.getTransformedSQLForParallel(context.Background(), q, "tenantb")
	if !denied && strings.Contains(out, "tenantb/secretm") {
		t.Fatalf("a token without any permission passes the permission check for %q (asked: %v), and the statement sent to DuckDB is %q", q, rb.asked, out)
	}
}
