package cluster

// Demonstration for C24 (`reader-alters-replicated-row-entries`): what a reader node stores for a replicated
// row-format entry must be what the writer stored. Row-format WAL entries carry their routing under the reserved
// keys _measurement / _database and hold timestamps that are already microseconds. The reader-side ingest handler
// (Coordinator.buildReplicationIngestHandler / rowsToColumns) nevertheless dropped the user's own columns named
// measurement, m and database, and sent the microsecond timestamps through the unit auto-detection for raw client
// payloads again - a value below 1e13 was taken for milliseconds and multiplied by 1000.
// Real ArrowBuffer + WAL writer on the writer side, the hook payload handed verbatim to the real ingest handler.

import (
	"context"
	"database/sql"
	"fmt"
	"path/filepath"
	"sort"
	"strings"
	"sync"
	"testing"
	"time"

	"github.com/basekick-labs/arc/internal/config"
	"github.com/basekick-labs/arc/internal/ingest"
	"github.com/basekick-labs/arc/internal/storage"
	"github.com/basekick-labs/arc/internal/wal"
	"github.com/basekick-labs/arc/pkg/models"
	_ "github.com/duckdb/duckdb-go/v2"
	"github.com/rs/zerolog"
)

func verifDemoStoredRows(t *testing.T, root string) string {
	db, err := sql.Open("duckdb", "")
	if err != nil {
		t.Fatal(err)
	}
	defer db.Close()
	glob := filepath.Join(root, "prod", "cpu", "**", "*.parquet")
	rows, err := db.Query(fmt.Sprintf("SELECT * FROM read_parquet('%s', union_by_name=true)", glob))
	if err != nil {
		return "no rows: " + err.Error()
	}
	defer rows.Close()
	cols, _ := rows.Columns()
	var out []string
	for rows.Next() {
		vals := make([]interface{}, len(cols))
		ptrs := make([]interface{}, len(cols))
		for i := range vals {
			ptrs[i] = &vals[i]
		}
		if err := rows.Scan(ptrs...); err != nil {
			t.Fatal(err)
		}
		var kv []string
		for i, c := range cols {
			v := vals[i]
			if tm, ok := v.(time.Time); ok {
				v = tm.UTC().Format(time.RFC3339Nano)
			}
			kv = append(kv, fmt.Sprintf("%s=%v", c, v))
		}
		sort.Strings(kv)
		out = append(out, strings.Join(kv, " "))
	}
	sort.Strings(out)
	return strings.Join(out, "\n")
}

func TestVerifDemoReaderStoresWhatTheWriterStored(t *testing.T) {
	cfg := func() *config.IngestConfig {
		return &config.IngestConfig{MaxBufferSize: 1000000, MaxBufferAgeMS: 600000, FlushWorkers: 2, FlushQueueSize: 10, ShardCount: 4, Compression: "snappy"}
	}
	ctx := context.Background()
	walDir, writerDir, readerDir := t.TempDir(), t.TempDir(), t.TempDir()
	w, err := wal.NewWriter(&wal.WriterConfig{WALDir: walDir, SyncMode: wal.SyncModeFsync, Logger: zerolog.Nop()})
	if err != nil {
		t.Fatal(err)
	}
	var mu sync.Mutex
	var streamed [][]byte
	w.SetReplicationHook(func(e *wal.ReplicationEntry) {
		mu.Lock()
		streamed = append(streamed, append([]byte(nil), e.Payload...))
		mu.Unlock()
	})
	writerStorage, _ := storage.NewLocalBackend(writerDir, zerolog.Nop())
	writerBuf := ingest.NewArrowBuffer(cfg(), writerStorage, zerolog.Nop())
	writerBuf.SetWAL(w)
	rec := &models.ColumnarRecord{
		Measurement: "cpu",
		Columnar:    true,
		Columns: map[string][]interface{}{
			"time":        {int64(1700000000000000), int64(5000000000)}, // 2023-11-14, and 1970-01-01T01:23:20Z (microseconds)
			"host":        {"a", "b"},
			"v":           {int64(1), int64(2)},
			"measurement": {"user-column", "user-column"},
			"database":    {"also-a-user-column", "also-a-user-column"},
		},
		TagColumns: []string{"host"},
	}
	if err := writerBuf.WriteColumnarRecord(ctx, "prod", rec); err != nil {
		t.Fatal(err)
	}
	deadline := time.Now().Add(10 * time.Second)
	for {
		mu.Lock()
		n := len(streamed)
		mu.Unlock()
		if n >= 1 {
			break
		}
		if time.Now().After(deadline) {
			t.Fatal("the replication hook was not called")
		}
		time.Sleep(5 * time.Millisecond)
	}
	if err := writerBuf.Close(); err != nil {
		t.Fatal(err)
	}
	_ = w.Close()

	readerStorage, _ := storage.NewLocalBackend(readerDir, zerolog.Nop())
	readerBuf := ingest.NewArrowBuffer(cfg(), readerStorage, zerolog.Nop())
	c := &Coordinator{ingestBuffer: readerBuf, logger: zerolog.Nop()}
	h := c.buildReplicationIngestHandler()
	mu.Lock()
	payloads := streamed
	mu.Unlock()
	for _, p := range payloads {
		if err := h.ApplyReplicatedEntry(ctx, p); err != nil {
			t.Fatal(err)
		}
	}
	if err := readerBuf.Close(); err != nil {
		t.Fatal(err)
	}
	onWriter, onReader := verifDemoStoredRows(t, writerDir), verifDemoStoredRows(t, readerDir)
	if onWriter != onReader {
		t.Fatalf("the writer stored\n%s\nthe reader stored for the same replicated entry\n%s", onWriter, onReader)
	}
}
