package ingest

// Demonstration for C02 (`typed-dup-column-key-nonarray`): the columns map of a columnar payload repeats a key; the
// first occurrence is an array, the second a scalar. The generic decoder (a Go map: last occurrence wins) ends up
// with the scalar, drops it as a non-array, and stores NO such column. The typed fast path skipped non-array values
// BEFORE its duplicate-key check, so it kept the first occurrence: with the fast path on, a column is stored that
// does not exist with the fast path off.

import (
	"sort"
	"strings"
	"testing"

	"github.com/Basekick-Labs/msgpack/v6"
	"github.com/basekick-labs/arc/pkg/models"
	"github.com/rs/zerolog"
)

func verifColumnsOf(t *testing.T, typed bool, body []byte) (string, error) {
	d := NewMessagePackDecoder(zerolog.Nop())
	d.SetTypedDecodeEnabled(typed)
	recs, err := d.Decode(body)
	if err != nil {
		return "", err
	}
	var names []string
	for _, r := range recs.([]interface{}) {
		switch x := r.(type) {
		case *TypedColumnarRecord:
			for n := range x.Batch.Data {
				names = append(names, n)
			}
		case *models.ColumnarRecord:
			for n := range x.Columns {
				names = append(names, n)
			}
		}
	}
	sort.Strings(names)
	return strings.Join(names, ","), nil
}

func TestVerifDemoDuplicateColumnKeyArrayThenScalar(t *testing.T) {
	enc := func(v interface{}) []byte { b, _ := msgpack.Marshal(v); return b }
	var p []byte
	p = append(p, 0x82) // {"m": "cpu", "columns": {...}}
	p = append(p, enc("m")...)
	p = append(p, enc("cpu")...)
	p = append(p, enc("columns")...)
	p = append(p, 0x83) // three entries, the key "v" twice
	p = append(p, enc("time")...)
	p = append(p, enc([]interface{}{int64(1700000000000000)})...)
	p = append(p, enc("v")...)
	p = append(p, enc([]interface{}{int64(1)})...)
	p = append(p, enc("v")...)
	p = append(p, enc(int64(5))...)
	on, errOn := verifColumnsOf(t, true, p)
	off, errOff := verifColumnsOf(t, false, p)
	if (errOn == nil) != (errOff == nil) {
		t.Fatalf("acceptance differs: typed on: %v, typed off: %v", errOn, errOff)
	}
	if on != off {
		t.Fatalf("stored columns differ: typed fast path on: [%s], off: [%s]", on, off)
	}
}
