package api

// Demonstration for C32: a record whose measurement is "" must not slip past extraction
// (extraction feeds both name validation and the RBAC write check).

import (
	"testing"

	"github.com/basekick-labs/arc/pkg/models"
)

func TestVerifEmptyMeasurementIsExtracted(t *testing.T) {
	h := &MsgPackHandler{}
	recs := []interface{}{
		&models.ColumnarRecord{Measurement: "cpu"},
		&models.ColumnarRecord{Measurement: ""},
	}
	got := h.extractMeasurements(recs)
	have := map[string]bool{}
	for _, m := range got {
		have[m] = true
	}
	for _, r := range recs {
		m := r.(*models.ColumnarRecord).Measurement
		if !have[m] {
			t.Fatalf("record with measurement %q is not in the extracted list %q: it would be stored without name validation or RBAC check", m, got)
		}
	}
	if isValidMeasurementName("") {
		t.Fatalf("the empty measurement name must be rejected by validation")
	}
}
