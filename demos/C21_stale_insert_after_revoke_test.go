package auth

// Demonstration for C21: a verification that read the token row before a revoke can insert that row into the
// cache after the revoke cleared it — the revoked token then keeps authenticating from the cache until the TTL.
//
// VerifyToken reads the row, then spends ~100 ms in PBKDF2 (600,000 iterations) before it inserts the cache
// entry; RevokeToken (UPDATE + InvalidateCache) fits inside that window. No hook is needed: the test starts a
// verification, revokes 20 ms later, waits for the verification to finish, and authenticates again.

import (
	"context"
	"path/filepath"
	"testing"
	"time"

	"github.com/rs/zerolog"
)

func TestVerifDemoStaleInsertAfterRevoke(t *testing.T) {
	am, err := NewAuthManager(filepath.Join(t.TempDir(), "auth.db"), time.Hour, 100, zerolog.Nop())
	if err != nil {
		t.Fatal(err)
	}
	defer am.Close()
	ctx := context.Background()
	tok, err := am.CreateToken(ctx, "victim", "", "read", nil)
	if err != nil {
		t.Fatal(err)
	}
	info := am.VerifyToken(tok)
	if info == nil {
		t.Fatal("fresh token does not authenticate")
	}
	id := info.ID
	am.InvalidateCache() // next verification goes to the database

	for attempt := 0; attempt < 5; attempt++ {
		done := make(chan *TokenInfo, 1)
		go func() { done <- am.VerifyToken(tok) }() // reads the row, then hashes for ~100 ms, then caches
		time.Sleep(20 * time.Millisecond)
		if err := am.RevokeToken(ctx, id); err != nil {
			t.Fatalf("revoke: %v", err)
		}
		// the revoke call has returned: from here on the old value must not authenticate
		first := <-done
		am.cacheMu.RLock(); n := len(am.cache); am.cacheMu.RUnlock()
		t.Logf("attempt %d: in-flight verification returned %v, cache entries now %d", attempt, first != nil, n)
		if again := am.VerifyToken(tok); again != nil {
			t.Fatalf("revoked token still authenticates after RevokeToken returned (served from the cache, enabled=%v)", again.Enabled)
		}
		// not hit this time (the verification had not read the row yet): re-enable and retry
		if _, err := am.db.Exec("UPDATE api_tokens SET enabled = 1 WHERE id = ?", id); err != nil {
			t.Fatal(err)
		}
		am.InvalidateCache()
	}
}
