package sql

// Demonstration for the C15 known finding `mask-placeholder-lookalike`: the masker replaces literals by
// placeholders of the form __STR_n__ / __IDENT_n__ and the unmasker restores them by textual replacement. If the
// ORIGINAL text already contains such a token outside any literal (a column may be called __STR_0__), the
// unmasker substitutes the first literal there: mask followed by unmask does not return the original text.

import "testing"

func TestVerifDemoMaskRoundTripWithLookalike(t *testing.T) {
	in := "SELECT __STR_0__ , 'x' FROM t"
	masked, masks := MaskStringLiterals(in, HasQuotes(in))
	if back := UnmaskStringLiterals(masked, masks); back != in {
		t.Fatalf("mask/unmask is not the identity:\n  in     %q\n  masked %q\n  back   %q", in, masked, back)
	}
}
