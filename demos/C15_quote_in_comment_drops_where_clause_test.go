package api

// Demonstration for C15 (`quote-in-comment-drops-live-sql-in-rewrite`): the query rewrite, the permission check, the
// cross-database scan and the SHOW normaliser masked string literals FIRST and stripped comments AFTERWARDS. A quote
// character inside a comment (`-- it's`) is no quote for DuckDB, but the masker paired it with the next quote of the
// statement; the newline that ends the comment disappeared into the placeholder, and the comment stripper then
// removed everything up to the end of the statement. The statement that reached DuckDB had lost its WHERE clause (or
// its JOIN): every row of the measurement was returned, with no error.

import (
	"context"
	"strings"
	"testing"

	"github.com/basekick-labs/arc/internal/pruning"
	"github.com/rs/zerolog"
)

func TestVerifDemoQuoteInsideCommentKeepsWhereClause(t *testing.T) {
	h := &QueryHandler{
		storage: &mockLocalBackend{basePath: "./data"},
		pruner:  pruning.NewPartitionPruner(zerolog.Nop()),
		logger:  zerolog.Nop(),
	}
	q := "SELECT * FROM cpu -- don't include the other hosts\nWHERE host = 'a'"
	out := h.convertSQLToStoragePaths(context.Background(), q)
	if !strings.Contains(out, "WHERE host = 'a'") {
		t.Fatalf("the statement sent to DuckDB for %q is %q: the WHERE clause is gone, every host is returned", q, out)
	}
	q2 := "SELECT * -- it's all\nFROM other.cpu WHERE host = 'a'"
	if !hasCrossDatabaseSyntax(q2) {
		t.Fatalf("%q: the db.table reference after the comment is invisible to hasCrossDatabaseSyntax", q2)
	}
}
