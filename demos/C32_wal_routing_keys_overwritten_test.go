package main

// Demonstration for C32 / C05 (`wal-routing-keys-overwritten-by-user-columns`): a row-format WAL record carries
// the request's database and measurement under the reserved keys `_database` / `_measurement`, and the startup
// replay routes every recovered row by them. columnarToWALRecords wrote those two keys FIRST and the request's own
// columns afterwards, so a column the client happens to call `_database` (a line-protocol tag, a msgpack field)
// replaced the routing key: the live path stores the row under the database the request was authorised for
// (internal `_` columns are not stored at all), but after a crash the replay writes it into whatever database
// the column value names - a database the token was never checked against.

import (
	"context"
	"os"
	"path/filepath"
	"sort"
	"strings"
	"testing"
	"time"

	"github.com/basekick-labs/arc/internal/config"
	"github.com/basekick-labs/arc/internal/ingest"
	"github.com/basekick-labs/arc/internal/storage"
	"github.com/basekick-labs/arc/internal/wal"
	"github.com/basekick-labs/arc/pkg/models"
	"github.com/rs/zerolog"
)

func verifStoredDatabases(root string) []string {
	seen := map[string]bool{}
	_ = filepath.Walk(root, func(p string, info os.FileInfo, err error) error {
		if err != nil || info.IsDir() || !strings.HasSuffix(p, ".parquet") {
			return nil
		}
		rel, _ := filepath.Rel(root, p)
		parts := strings.Split(filepath.ToSlash(rel), "/")
		seen[parts[0]+"/"+parts[1]] = true
		return nil
	})
	var out []string
	for k := range seen {
		out = append(out, k)
	}
	sort.Strings(out)
	return out
}

func TestVerifDemoWALRoutingKeysSurviveUserColumns(t *testing.T) {
	cfg := func() *config.IngestConfig {
		return &config.IngestConfig{MaxBufferSize: 1000000, MaxBufferAgeMS: 600000, FlushWorkers: 2, FlushQueueSize: 10, ShardCount: 4, Compression: "snappy"}
	}
	rec := func() *models.ColumnarRecord {
		return &models.ColumnarRecord{
			Measurement: "cpu",
			Columnar:    true,
			Columns: map[string][]interface{}{
				"time":         {int64(1700000000000000)},
				"_database":    {"tenant_b"}, // a tag the client chose to call "_database"
				"_measurement": {"secrets"},  // ... and one called "_measurement"
				"v":            {int64(1)},
			},
			TagColumns: []string{"_database", "_measurement"},
		}
	}
	ctx := context.Background()

	// crash-free run: the request was authorised for tenant_a and is stored there
	liveDir := t.TempDir()
	liveStorage, err := storage.NewLocalBackend(liveDir, zerolog.Nop())
	if err != nil {
		t.Fatal(err)
	}
	live := ingest.NewArrowBuffer(cfg(), liveStorage, zerolog.Nop())
	if err := live.WriteColumnarRecord(ctx, "tenant_a", rec()); err != nil {
		t.Fatal(err)
	}
	if err := live.Close(); err != nil {
		t.Fatal(err)
	}
	want := verifStoredDatabases(liveDir)
	if strings.Join(want, ",") != "tenant_a/cpu" {
		t.Fatalf("crash-free run stored under %v, expected tenant_a/cpu only", want)
	}

	// crashing run: same write with a WAL, the process dies before any flush, the restart replays the WAL
	walDir, lostDir, recoveredDir := t.TempDir(), t.TempDir(), t.TempDir()
	w, err := wal.NewWriter(&wal.WriterConfig{WALDir: walDir, SyncMode: wal.SyncModeFsync, Logger: zerolog.Nop()})
	if err != nil {
		t.Fatal(err)
	}
	lostStorage, _ := storage.NewLocalBackend(lostDir, zerolog.Nop())
	buf1 := ingest.NewArrowBuffer(cfg(), lostStorage, zerolog.Nop())
	buf1.SetWAL(w)
	t.Cleanup(func() { _ = buf1.Close() })
	if err := buf1.WriteColumnarRecord(ctx, "tenant_a", rec()); err != nil {
		t.Fatal(err)
	}
	deadline := time.Now().Add(10 * time.Second)
	for w.Stats()["total_entries"].(int64) < 1 {
		if time.Now().After(deadline) {
			t.Fatal("WAL writer did not persist the entry")
		}
		time.Sleep(5 * time.Millisecond)
	}
	_ = w.Close()

	recoveredStorage, _ := storage.NewLocalBackend(recoveredDir, zerolog.Nop())
	buf2 := ingest.NewArrowBuffer(cfg(), recoveredStorage, zerolog.Nop())
	if _, err := wal.NewRecovery(walDir, zerolog.Nop()).RecoverWithOptions(ctx, createWALRecoveryCallback(buf2, zerolog.Nop()),
		&wal.RecoveryOptions{BatchSize: 10000, ColumnarCallback: createColumnarRecoveryCallback(buf2, zerolog.Nop())}); err != nil {
		t.Fatal(err)
	}
	if err := buf2.Close(); err != nil {
		t.Fatal(err)
	}
	got := verifStoredDatabases(recoveredDir)
	if strings.Join(got, ",") != strings.Join(want, ",") {
		t.Fatalf("the request was authorised for and stored under %v; after a crash the WAL replay stored its row under %v", want, got)
	}
}
