package api

// Demonstration for C15 / C14 (`backslash-quote-mispaired-in-standard-strings`): the string-literal masker treated
// `\'` as an escaped quote inside EVERY string. DuckDB does so only in E'...' strings; in a standard string a
// backslash is an ordinary character, so '\' is a complete one-character literal. The masker therefore ran past its
// closing quote to the NEXT quote in the text and swallowed the live SQL in between into one placeholder - hidden
// from the I/O-function denylist, the permission extraction and every other consumer of the masked text, while
// DuckDB executes it.

import (
	"context"
	"database/sql"
	"os"
	"path/filepath"
	"testing"

	_ "github.com/duckdb/duckdb-go/v2"
)

func TestVerifDemoBackslashIsNoEscapeInStandardStrings(t *testing.T) {
	dir := t.TempDir()
	secret := filepath.Join(dir, "tenant_b.csv")
	if err := os.WriteFile(secret, []byte("k,v\nsecret,42\n"), 0o600); err != nil {
		t.Fatal(err)
	}
	q := `SELECT '\' AS a, v FROM read_csv('` + secret + `') WHERE k <> '\'`
	db, err := sql.Open("duckdb", "")
	if err != nil {
		t.Fatal(err)
	}
	defer db.Close()
	var a string
	var v int64
	if err := db.QueryRowContext(context.Background(), q).Scan(&a, &v); err != nil {
		t.Fatalf("DuckDB does not execute %q: %v", q, err)
	}
	if a != `\` || v != 42 {
		t.Fatalf("DuckDB returned (%q, %d)", a, v)
	}
	if err := ValidateSQLRequest(q); err == nil {
		t.Fatalf("ValidateSQLRequest accepts %q although DuckDB executes its read_csv() call (the other tenant's row came back)", q)
	}
}
