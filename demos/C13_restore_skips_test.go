package backup

// Demonstration for C13 (fault-path replay of obligation restoreDataFiles.all.or.error):
// one file fails to restore (injected storage fault) and RestoreBackup must not report success.

import (
	"context"
	"errors"
	"io"
	"strings"
	"testing"

	"github.com/basekick-labs/arc/internal/storage"
	"github.com/rs/zerolog"
)

type verifFaultyBackend struct {
	*storage.LocalBackend
	failSuffix string
}

func (f *verifFaultyBackend) WriteReader(ctx context.Context, path string, r io.Reader, size int64) error {
	if strings.HasSuffix(path, f.failSuffix) {
		return errors.New("injected storage fault")
	}
	return f.LocalBackend.WriteReader(ctx, path, r, size)
}

func TestVerifRestoreReportsFailedFile(t *testing.T) {
	ctx := context.Background()
	data, err := storage.NewLocalBackend(t.TempDir(), zerolog.Nop())
	if err != nil {
		t.Fatal(err)
	}
	files := []string{"db/m/2026/08/20/10/a.parquet", "db/m/2026/08/20/10/b.parquet", "db/m/2026/08/20/11/c.parquet"}
	for _, p := range files {
		if err := data.Write(ctx, p, []byte("rows-of-"+p)); err != nil {
			t.Fatal(err)
		}
	}
	faulty := &verifFaultyBackend{LocalBackend: data, failSuffix: "b.parquet"}
	m, err := NewManager(&ManagerConfig{DataStorage: faulty, BackupPath: t.TempDir(), Logger: zerolog.Nop()})
	if err != nil {
		t.Fatal(err)
	}
	res, err := m.CreateBackup(ctx, BackupOptions{})
	if err != nil {
		t.Fatal(err)
	}
	for _, p := range files { // lose the live data
		if err := data.Delete(ctx, p); err != nil {
			t.Fatal(err)
		}
	}
	_, rerr := m.RestoreBackup(ctx, RestoreOptions{BackupID: res.Manifest.BackupID, RestoreData: true})
	missing := 0
	for _, p := range files {
		if ok, _ := data.Exists(ctx, p); !ok {
			missing++
		}
	}
	if rerr == nil && missing > 0 {
		t.Fatalf("restore reported success but %d of %d files are missing", missing, len(files))
	}
	if rerr == nil {
		t.Fatalf("expected the injected fault to surface")
	}
}
