package main

// Demonstration for C05 (`wal-row-replay-drops-user-columns`): a row-format WAL entry (line protocol, msgpack
// row/batch requests) carries its routing metadata under the reserved keys `_database` / `_measurement`.
// The startup replay callback nevertheless also treats the user's own columns named `database`, `measurement`
// and `m` as metadata and strips them from every replayed row, so after a crash the recovered rows have lost
// those columns although the live path stored them.

import (
	"context"
	"os"
	"path/filepath"
	"sort"
	"strings"
	"testing"
	"time"

	"github.com/apache/arrow-go/v18/parquet/file"
	"github.com/apache/arrow-go/v18/parquet/pqarrow"
	"github.com/basekick-labs/arc/internal/config"
	"github.com/basekick-labs/arc/internal/ingest"
	"github.com/basekick-labs/arc/internal/storage"
	"github.com/basekick-labs/arc/internal/wal"
	"github.com/basekick-labs/arc/pkg/models"
	"github.com/rs/zerolog"
)

func verifParquetColumns(t *testing.T, root string) map[string][]string {
	out := map[string][]string{}
	_ = filepath.Walk(root, func(p string, info os.FileInfo, err error) error {
		if err != nil || info.IsDir() || !strings.HasSuffix(p, ".parquet") {
			return nil
		}
		pf, err := file.OpenParquetFile(p, false)
		if err != nil {
			t.Fatalf("open %s: %v", p, err)
		}
		defer pf.Close()
		rd, err := pqarrow.NewFileReader(pf, pqarrow.ArrowReadProperties{}, nil)
		if err != nil {
			t.Fatalf("reader %s: %v", p, err)
		}
		sc, err := rd.Schema()
		if err != nil {
			t.Fatalf("schema %s: %v", p, err)
		}
		rel, _ := filepath.Rel(root, p)
		parts := strings.Split(filepath.ToSlash(rel), "/")
		var names []string
		for _, f := range sc.Fields() {
			names = append(names, f.Name)
		}
		sort.Strings(names)
		out[parts[0]+"/"+parts[1]] = names
		return nil
	})
	return out
}

func TestVerifDemoRowReplayKeepsUserColumns(t *testing.T) {
	cfg := func() *config.IngestConfig {
		return &config.IngestConfig{MaxBufferSize: 1000000, MaxBufferAgeMS: 600000, FlushWorkers: 2, FlushQueueSize: 10, ShardCount: 4, Compression: "snappy"}
	}
	rec := func() *models.ColumnarRecord {
		return &models.ColumnarRecord{
			Measurement: "deploys",
			Columnar:    true,
			Columns: map[string][]interface{}{
				"time":        {int64(1700000000000000)},
				"database":    {"prod"},  // a tag the user happens to call "database"
				"measurement": {"build"}, // ... and one called "measurement"
				"version":     {int64(41)},
			},
			TagColumns: []string{"database", "measurement"},
		}
	}
	ctx := context.Background()

	// crash-free run: write, flush, look at the stored columns
	liveDir := t.TempDir()
	liveStorage, err := storage.NewLocalBackend(liveDir, zerolog.Nop())
	if err != nil {
		t.Fatal(err)
	}
	live := ingest.NewArrowBuffer(cfg(), liveStorage, zerolog.Nop())
	if err := live.WriteColumnarRecord(ctx, "tenant_a", rec()); err != nil {
		t.Fatal(err)
	}
	if err := live.Close(); err != nil {
		t.Fatal(err)
	}
	want := verifParquetColumns(t, liveDir)["tenant_a/deploys"]

	// crashing run: same write with a WAL, process dies before any flush, restart replays the WAL
	walDir, lostDir, recoveredDir := t.TempDir(), t.TempDir(), t.TempDir()
	w, err := wal.NewWriter(&wal.WriterConfig{WALDir: walDir, SyncMode: wal.SyncModeFsync, Logger: zerolog.Nop()})
	if err != nil {
		t.Fatal(err)
	}
	lostStorage, _ := storage.NewLocalBackend(lostDir, zerolog.Nop())
	buf1 := ingest.NewArrowBuffer(cfg(), lostStorage, zerolog.Nop())
	buf1.SetWAL(w)
	t.Cleanup(func() { _ = buf1.Close() })
	if err := buf1.WriteColumnarRecord(ctx, "tenant_a", rec()); err != nil {
		t.Fatal(err)
	}
	deadline := time.Now().Add(10 * time.Second)
	for w.Stats()["total_entries"].(int64) < 1 {
		if time.Now().After(deadline) {
			t.Fatal("WAL writer did not persist the entry")
		}
		time.Sleep(5 * time.Millisecond)
	}
	_ = w.Close()

	recoveredStorage, _ := storage.NewLocalBackend(recoveredDir, zerolog.Nop())
	buf2 := ingest.NewArrowBuffer(cfg(), recoveredStorage, zerolog.Nop())
	if _, err := wal.NewRecovery(walDir, zerolog.Nop()).RecoverWithOptions(ctx, createWALRecoveryCallback(buf2, zerolog.Nop()),
		&wal.RecoveryOptions{BatchSize: 10000, ColumnarCallback: createColumnarRecoveryCallback(buf2, zerolog.Nop())}); err != nil {
		t.Fatal(err)
	}
	if err := buf2.Close(); err != nil {
		t.Fatal(err)
	}
	got := verifParquetColumns(t, recoveredDir)["tenant_a/deploys"]
	if strings.Join(got, ",") != strings.Join(want, ",") {
		t.Fatalf("columns stored by the crash-free run: %v; columns after crash + WAL replay: %v (recovery dropped user columns)", want, got)
	}
}
