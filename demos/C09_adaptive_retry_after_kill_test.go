package compaction

// Demonstration for C09 (`adaptive-retry-recompacts-inputs-of-a-killed-job`): crash schedule "the compaction
// subprocess is killed after it uploaded its output and wrote its recovery manifest, before it deleted its first
// input". Manager.compactFilesAdaptively classifies a killed subprocess as a recoverable failure and immediately
// re-runs the SAME file list in two halves (batchCandidate := candidate; batchCandidate.Files = half) - the
// manifest-tracked-inputs filter (filterCandidateFiles) is applied only once per cycle, before the first attempt.
// The halves compact the killed job's inputs a second time and delete them; the next cycle's manifest recovery
// finds the first output intact, the inputs already gone, and drops the manifest. The partition then shows every
// row twice: once in the killed job's output, once in the halves' outputs (no dedup metadata => no collapse).
// Real code throughout: Job.Run on a LocalBackend (the kill is a panic injected at the first input deletion),
// the halves wired as CompactPartition/RunSubprocessJob wire them (in-process), RecoverOrphanedManifests.

import (
	"context"
	"database/sql"
	"fmt"
	"os"
	"path/filepath"
	"sort"
	"strings"
	"testing"
	"time"

	"github.com/basekick-labs/arc/internal/storage"
	"github.com/rs/zerolog"
)

type verifKillOnDelete struct {
	*storage.LocalBackend
	armed *bool
}

func (b verifKillOnDelete) Delete(ctx context.Context, path string) error {
	if *b.armed && strings.HasSuffix(path, ".parquet") {
		panic("verif: subprocess killed before the first input deletion")
	}
	return b.LocalBackend.Delete(ctx, path)
}

func (b verifKillOnDelete) DeleteBatch(ctx context.Context, paths []string) error {
	if *b.armed {
		panic("verif: subprocess killed before the first input deletion")
	}
	for _, p := range paths {
		if err := b.LocalBackend.Delete(ctx, p); err != nil {
			return err
		}
	}
	return nil
}

func verifRows(t *testing.T, db *sql.DB, dir string) []string {
	t.Helper()
	glob := escapeSQLPath(filepath.ToSlash(filepath.Join(dir, "*.parquet")))
	rows, err := db.Query(fmt.Sprintf(`SELECT epoch_us("time")::BIGINT, host, value FROM read_parquet('%s', union_by_name=true) ORDER BY 1, 2, 3`, glob))
	if err != nil {
		t.Fatalf("read partition: %v", err)
	}
	defer rows.Close()
	var out []string
	for rows.Next() {
		var ts int64
		var host string
		var value float64
		if err := rows.Scan(&ts, &host, &value); err != nil {
			t.Fatal(err)
		}
		out = append(out, fmt.Sprintf("%d|%s|%g", ts, host, value))
	}
	sort.Strings(out)
	return out
}

func verifRunJob(ctx context.Context, backend storage.Backend, db *sql.DB, tmp string, c Candidate, files []string) (err error) {
	defer func() {
		if r := recover(); r != nil {
			err = fmt.Errorf("signal: killed (%v)", r)
		}
	}()
	logger := zerolog.Nop()
	jobID := fmt.Sprintf("%s_%s_%d_b%d", sanitizeDBForName(c.Database), strings.ReplaceAll(c.PartitionPath, "/", "_"), time.Now().UnixNano(), c.BatchNumber)
	job := NewJob(&JobConfig{Database: c.Database, Measurement: c.Measurement, PartitionPath: c.PartitionPath, Files: files, StorageBackend: backend,
		Tier: c.Tier, BatchNumber: c.BatchNumber, TempDirectory: tmp, Logger: logger, DB: db, ManifestManager: NewManifestManager(backend, logger),
		JobID: jobID, PartitionTime: c.PartitionTime})
	return job.Run(ctx)
}

func TestVerifDemoAdaptiveRetryAfterKilledJob(t *testing.T) {
	ctx := context.Background()
	base, tmp := t.TempDir(), t.TempDir()
	logger := zerolog.Nop()
	local, err := storage.NewLocalBackend(base, logger)
	if err != nil {
		t.Fatal(err)
	}
	defer local.Close()
	armed := false
	backend := verifKillOnDelete{LocalBackend: local, armed: &armed}
	db, err := sql.Open("duckdb", "")
	if err != nil {
		t.Fatal(err)
	}
	defer db.Close()

	partition := "prod/cpu/2026/08/01/05"
	partDir := filepath.Join(base, filepath.FromSlash(partition))
	if err := os.MkdirAll(partDir, 0o755); err != nil {
		t.Fatal(err)
	}
	var files []string
	for i := 0; i < 4; i++ {
		name := fmt.Sprintf("cpu_20260801_05%02d00_%d.parquet", i, 1000+i)
		sel := fmt.Sprintf(`SELECT * FROM (VALUES (TIMESTAMPTZ '2026-08-01 05:%02d:00Z', 'h%d', %d.5), (TIMESTAMPTZ '2026-08-01 05:%02d:30Z', 'h%d', %d.25)) AS v("time", host, value)`, i, i, i, i, i, i+10)
		if _, err := db.ExecContext(ctx, fmt.Sprintf(`COPY (%s) TO '%s' (FORMAT PARQUET)`, sel, escapeSQLPath(filepath.ToSlash(filepath.Join(partDir, name))))); err != nil {
			t.Fatal(err)
		}
		files = append(files, partition+"/"+name)
	}
	before := verifRows(t, db, partDir)
	if len(before) != 8 {
		t.Fatalf("setup: expected 8 rows, got %d", len(before))
	}
	batches := SplitCandidateIntoBatches(Candidate{Database: "prod", Measurement: "cpu", PartitionPath: partition, Files: files, FileCount: len(files),
		Tier: "hourly", PartitionTime: time.Date(2026, 8, 1, 5, 0, 0, 0, time.UTC)}, DefaultMaxFilesPerBatch)
	batch := batches[0]

	// first attempt: killed after upload + manifest, before the first input deletion
	armed = true
	err = verifRunJob(ctx, backend, db, tmp, batch, batch.Files)
	armed = false
	if err == nil {
		t.Fatal("setup: the first job should have been killed")
	}
	if recoverable, _ := ClassifySubprocessError(err, ""); !recoverable {
		t.Fatalf("setup: a killed subprocess is expected to be classified recoverable (got non-recoverable for %v)", err)
	}
	// what compactFilesAdaptively does next: the same file list, in two halves, no manifest filter in between
	time.Sleep(1100 * time.Millisecond) // distinct output names
	mid := len(batch.Files) / 2
	for _, half := range [][]string{append([]string(nil), batch.Files[:mid]...), append([]string(nil), batch.Files[mid:]...)} {
		if err := verifRunJob(ctx, backend, db, tmp, batch, half); err != nil {
			t.Fatalf("half batch failed: %v", err)
		}
	}
	// next cycle: manifest recovery first
	if _, err := NewManifestManager(backend, logger).RecoverOrphanedManifests(ctx, nil, nil); err != nil {
		t.Fatalf("recovery: %v", err)
	}
	after := verifRows(t, db, partDir)
	if strings.Join(before, ";") != strings.Join(after, ";") {
		t.Fatalf("a compaction subprocess killed between upload and input deletion, followed by the adaptive half-batch retry and the next cycle's manifest recovery, changed the partition's rows:\n before (%d rows): %v\n after  (%d rows): %v", len(before), before, len(after), after)
	}
}
