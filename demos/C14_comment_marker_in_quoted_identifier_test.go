package api

// Demonstration for C14 (`io-denylist-hidden-by-comment-marker-in-quoted-identifier`): ValidateSQLRequest matches
// the file-I/O function denylist (read_parquet, read_csv, glob, ...) and the replacement-scan check against
// ioDenylistNormalise(sql), which removed every `"` and backtick FIRST and stripped comments AFTERWARDS. A quoted
// identifier that contains a comment marker - a column alias "a--b", or "a/*" ... "*/" - therefore turned the rest
// of the line (or everything up to the second identifier) into a "comment" for the validator, while DuckDB reads
// the same bytes as an identifier followed by live SQL. The hidden text can be any I/O table function over the
// sandbox's allow-listed storage root, i.e. another tenant's files; the permission extraction never sees a table
// reference in such a query either.

import (
	"context"
	"database/sql"
	"os"
	"path/filepath"
	"testing"

	_ "github.com/duckdb/duckdb-go/v2"
)

func TestVerifDemoCommentMarkerInQuotedIdentifierDoesNotHideIO(t *testing.T) {
	dir := t.TempDir()
	secret := filepath.Join(dir, "tenant_b.csv")
	if err := os.WriteFile(secret, []byte("k,v\nsecret,42\n"), 0o600); err != nil {
		t.Fatal(err)
	}
	queries := []string{
		`SELECT v AS "a--b" FROM read_csv('` + secret + `')`,
		`SELECT v AS "a/*", k AS "*/" FROM read_csv('` + secret + `')`,
	}
	db, err := sql.Open("duckdb", "")
	if err != nil {
		t.Fatal(err)
	}
	defer db.Close()
	for _, q := range queries {
		// DuckDB's reading of the text: the I/O function is live SQL (the row comes back)
		var v int64
		row := db.QueryRowContext(context.Background(), q)
		var k sql.NullString
		if err := func() error {
			if q == queries[1] {
				return row.Scan(&v, &k)
			}
			return row.Scan(&v)
		}(); err != nil {
			t.Fatalf("DuckDB does not execute %q as expected: %v", q, err)
		}
		if v != 42 {
			t.Fatalf("DuckDB returned %d for %q", v, q)
		}
		// the validator's reading of the same text
		if err := ValidateSQLRequest(q); err == nil {
			t.Fatalf("ValidateSQLRequest accepts %q although DuckDB executes its read_csv() call (it returned the other tenant's row)", q)
		}
	}
}
