package auth

// History replay for C20 (`perm-cache-ignores-token-own-permissions`) on the real managers: a permission decision is
// computed from the token's own permission list (TokenInfo.Permissions, the fallback when RBAC grants nothing) as
// well as from the RBAC tables, but it is cached under (token id, database, measurement, permission) only, and
// AuthManager.UpdateToken - which does flush the token cache - has no way to reach the RBAC manager's decision
// cache. Narrowing a token's own permissions therefore does not take effect for the next check: the earlier
// "allowed" keeps being served from the decision cache until its TTL runs out.

import (
	"context"
	"reflect"
	"testing"
	"unsafe"

	"github.com/basekick-labs/arc/internal/license"
)

// verifEnableRBAC gives the manager a license client whose current license is active and carries the RBAC
// feature (the field is unexported and a real license needs a vendor signature; tests of the package itself run
// with RBAC off, which bypasses the decision cache entirely).
func verifEnableRBAC(rm *RBACManager) {
	c := &license.Client{}
	f := reflect.ValueOf(c).Elem().FieldByName("license")
	reflect.NewAt(f.Type(), unsafe.Pointer(f.UnsafeAddr())).Elem().Set(reflect.ValueOf(&license.License{Status: "active", Features: []string{license.FeatureRBAC}}))
	rm.licenseClient = c
}

func TestVerifNarrowedTokenPermissionsApplyToTheNextCheck(t *testing.T) {
	rm, am, cleanup := setupTestRBACManager(t)
	defer cleanup()
	verifEnableRBAC(rm)
	if !rm.IsRBACEnabled() {
		t.Fatal("setup: RBAC should be enabled")
	}
	ctx := context.Background()
	tok, err := am.CreateToken(ctx, "c20-narrow", "", "read,write", nil)
	if err != nil {
		t.Fatal(err)
	}
	ti := am.VerifyToken(tok)
	if ti == nil {
		t.Fatal("token did not verify")
	}
	check := func() *PermissionCheckResult {
		info := am.VerifyToken(tok) // what the request path does: current token record, then the permission check
		if info == nil {
			t.Fatal("token did not verify")
		}
		return rm.CheckPermission(&PermissionCheckRequest{TokenInfo: info, Database: "prod", Measurement: "cpu", Permission: "write"})
	}
	if r := check(); !r.Allowed {
		t.Fatalf("setup: a token with read,write must be allowed to write: %+v", r)
	}
	narrowed := "read"
	if err := am.UpdateToken(ctx, ti.ID, nil, nil, &narrowed, nil); err != nil {
		t.Fatal(err)
	}
	if info := am.VerifyToken(tok); info == nil || len(info.Permissions) != 1 || info.Permissions[0] != "read" {
		t.Fatalf("setup: the stored token should now carry only read: %+v", info)
	}
	if r := check(); r.Allowed {
		t.Fatalf("the token's own permissions were narrowed to read and the update has returned, but the very next write check is still allowed (source %q): the decision cache does not depend on the token's permissions and nothing flushes it", r.Source)
	}
}
