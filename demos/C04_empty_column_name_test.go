package ingest

// Demonstration for C04: a column with the empty name passes the buffer stage (the schema signature skips it)
// and then crashes schema construction at flush time: getSchema/inferSchema index name[0] without checking
// the length.

import (
	"context"
	"fmt"
	"testing"

	"github.com/basekick-labs/arc/internal/config"
	"github.com/basekick-labs/arc/internal/storage"
	"github.com/rs/zerolog"
)

func TestVerifDemoEmptyColumnName(t *testing.T) {
	backend, err := storage.NewLocalBackend(t.TempDir(), zerolog.Nop())
	if err != nil {
		t.Fatal(err)
	}
	buf := NewArrowBuffer(&config.IngestConfig{MaxBufferSize: 100000, MaxBufferAgeMS: 600000, FlushWorkers: 1, FlushQueueSize: 4}, backend, zerolog.Nop())
	ctx := context.Background()
	err = buf.WriteColumnarDirect(ctx, "db", "m", map[string][]interface{}{
		"time": {int64(1700000000000000)},
		"":     {int64(7)},
		"v":    {int64(1)},
	})
	if err != nil {
		t.Logf("write rejected (fine): %v", err)
		return
	}
	var panicked interface{}
	func() {
		defer func() { panicked = recover() }()
		_ = buf.FlushAll(ctx)
	}()
	if panicked != nil {
		t.Fatalf("flush panicked after an accepted write: %v", fmt.Sprint(panicked))
	}
}
