package pruning

// Demonstrations of the three open C18 findings on the real pruner (each test FAILS on the current tree).

import (
	"context"
	"strings"
	"testing"
	"time"

	"github.com/rs/zerolog"
)

func TestVerifExclusiveEndHour(t *testing.T) {
	p := NewPartitionPruner(zerolog.Nop())
	tr := &TimeRange{Start: time.Date(2024, 3, 1, 10, 0, 0, 0, time.UTC), End: time.Date(2024, 3, 1, 12, 0, 0, 0, time.UTC)}
	paths := p.GeneratePartitionPaths(context.Background(), "/data", "db", "cpu", tr)
	for _, pa := range paths {
		if strings.Contains(pa, "2024/03/01/12/") {
			return
		}
	}
	t.Fatalf("a row stamped exactly 2024-03-01T12:00:00Z satisfies time <= End but its partition 2024/03/01/12 is not among %v", paths)
}

func TestVerifLowerBoundOnlyKeepsFuture(t *testing.T) {
	p := NewPartitionPruner(zerolog.Nop())
	tr := p.ExtractTimeRange("SELECT * FROM cpu WHERE time > '2024-01-01 00:00:00'")
	if tr != nil && tr.End.Before(time.Now().Add(48*time.Hour)) {
		t.Fatalf("only a lower bound was given, yet rows after %s are pruned away", tr.End)
	}
}

func TestVerifUpperBoundOnlyKeepsPast(t *testing.T) {
	p := NewPartitionPruner(zerolog.Nop())
	tr := p.ExtractTimeRange("SELECT * FROM cpu WHERE time < '2019-06-01 00:00:00'")
	if tr != nil && tr.Start.After(time.Date(1970, 1, 2, 0, 0, 0, 0, time.UTC)) {
		t.Fatalf("only an upper bound was given, yet rows before %s are pruned away", tr.Start)
	}
}
