package main

// Demonstration for the C05 known finding `wal-deleted-before-replayed-rows-stored`: startup recovery replays a
// WAL file into the in-memory buffer (WriteColumnarDirectNoWAL: not re-logged) and deletes the file at once.
// If the process dies again before those buffers are flushed, the acknowledged rows exist nowhere.

import (
	"context"
	"os"
	"path/filepath"
	"strings"
	"testing"
	"time"

	"github.com/basekick-labs/arc/internal/config"
	"github.com/basekick-labs/arc/internal/ingest"
	"github.com/basekick-labs/arc/internal/storage"
	"github.com/basekick-labs/arc/internal/wal"
	"github.com/basekick-labs/arc/pkg/models"
	"github.com/rs/zerolog"
)

func TestVerifDemoCrashJustAfterRecoveryKeepsRows(t *testing.T) {
	cfg := func() *config.IngestConfig {
		return &config.IngestConfig{MaxBufferSize: 1000000, MaxBufferAgeMS: 600000, FlushWorkers: 2, FlushQueueSize: 10, ShardCount: 4, Compression: "snappy"}
	}
	ctx := context.Background()
	walDir, lostDir, dataDir := t.TempDir(), t.TempDir(), t.TempDir()

	// process 1: acknowledged write, entry reaches the WAL file, crash before any flush
	w, err := wal.NewWriter(&wal.WriterConfig{WALDir: walDir, SyncMode: wal.SyncModeFsync, Logger: zerolog.Nop()})
	if err != nil {
		t.Fatal(err)
	}
	lost, _ := storage.NewLocalBackend(lostDir, zerolog.Nop())
	buf1 := ingest.NewArrowBuffer(cfg(), lost, zerolog.Nop())
	buf1.SetWAL(w)
	t.Cleanup(func() { _ = buf1.Close() })
	if err := buf1.WriteColumnarRecord(ctx, "tenant_a", &models.ColumnarRecord{Measurement: "cpu", Columnar: true,
		Columns: map[string][]interface{}{"time": {int64(1700000000000000)}, "host": {"h1"}, "usage": {float64(1.5)}}, TagColumns: []string{"host"}}); err != nil {
		t.Fatal(err)
	}
	deadline := time.Now().Add(10 * time.Second)
	for w.Stats()["total_entries"].(int64) < 1 {
		if time.Now().After(deadline) {
			t.Fatal("WAL writer did not persist the entry")
		}
		time.Sleep(5 * time.Millisecond)
	}
	_ = w.Close()

	recoverInto := func(buf *ingest.ArrowBuffer) {
		if _, err := wal.NewRecovery(walDir, zerolog.Nop()).RecoverWithOptions(ctx, createWALRecoveryCallback(buf, zerolog.Nop()),
			&wal.RecoveryOptions{BatchSize: 10000, ColumnarCallback: createColumnarRecoveryCallback(buf, zerolog.Nop())}); err != nil {
			t.Fatal(err)
		}
	}
	// process 2: startup recovery completes, then the process dies before the replayed buffers are flushed
	data2, _ := storage.NewLocalBackend(dataDir, zerolog.Nop())
	buf2 := ingest.NewArrowBuffer(cfg(), data2, zerolog.Nop())
	recoverInto(buf2)
	// (crash: buf2 is abandoned, never flushed; its memory is gone)

	// process 3: restart, recovery, normal shutdown
	data3, _ := storage.NewLocalBackend(dataDir, zerolog.Nop())
	buf3 := ingest.NewArrowBuffer(cfg(), data3, zerolog.Nop())
	recoverInto(buf3)
	if err := buf3.Close(); err != nil {
		t.Fatal(err)
	}
	found := false
	_ = filepath.Walk(dataDir, func(p string, info os.FileInfo, err error) error {
		if err == nil && !info.IsDir() && strings.HasSuffix(p, ".parquet") && strings.Contains(filepath.ToSlash(p), "tenant_a/cpu/") {
			found = true
		}
		return nil
	})
	if !found {
		t.Fatalf("the acknowledged row is in no WAL file and in no stored file after a crash just after recovery (recovery deleted the WAL file while the replayed rows were only buffered)")
	}
}
