package cluster

// Demonstration for C32 (`replicated-row-entries-land-in-default`): a write that reaches the WAL in row format
// (line protocol, msgpack row/batch: ArrowBuffer.WriteColumnarRecord -> wal.Append) is handed to the replication
// hook WITHOUT the database envelope that raw columnar writes get (AppendRawWithMeta); its database travels only
// inside each record, under the reserved key `_database`. The reader-side ingest handler
// (Coordinator.buildReplicationIngestHandler) takes the database from the envelope, falls back to "default" when
// there is none, and rowsToColumns then discards the records' `_database`. So on every reader node the rows of a
// line-protocol write to database `prod` are stored under `default`.
// Everything here is the real code: the real ArrowBuffer + WAL writer on the "writer" side, the hook payload
// passed verbatim to the real ingest handler on the "reader" side.

import (
	"context"
	"os"
	"path/filepath"
	"sort"
	"strings"
	"sync"
	"testing"
	"time"

	"github.com/basekick-labs/arc/internal/config"
	"github.com/basekick-labs/arc/internal/ingest"
	"github.com/basekick-labs/arc/internal/storage"
	"github.com/basekick-labs/arc/internal/wal"
	"github.com/basekick-labs/arc/pkg/models"
	"github.com/rs/zerolog"
)

func verifStoredUnder(root string) []string {
	seen := map[string]bool{}
	_ = filepath.Walk(root, func(p string, info os.FileInfo, err error) error {
		if err != nil || info.IsDir() || !strings.HasSuffix(p, ".parquet") {
			return nil
		}
		rel, _ := filepath.Rel(root, p)
		parts := strings.Split(filepath.ToSlash(rel), "/")
		seen[parts[0]+"/"+parts[1]] = true
		return nil
	})
	var out []string
	for k := range seen {
		out = append(out, k)
	}
	sort.Strings(out)
	return out
}

func TestVerifDemoReplicatedRowWriteKeepsItsDatabase(t *testing.T) {
	cfg := func() *config.IngestConfig {
		return &config.IngestConfig{MaxBufferSize: 1000000, MaxBufferAgeMS: 600000, FlushWorkers: 2, FlushQueueSize: 10, ShardCount: 4, Compression: "snappy"}
	}
	ctx := context.Background()

	// writer node: ArrowBuffer with a WAL whose replication hook captures what would be streamed to readers
	walDir, writerDir, readerDir := t.TempDir(), t.TempDir(), t.TempDir()
	w, err := wal.NewWriter(&wal.WriterConfig{WALDir: walDir, SyncMode: wal.SyncModeFsync, Logger: zerolog.Nop()})
	if err != nil {
		t.Fatal(err)
	}
	var mu sync.Mutex
	var streamed [][]byte
	w.SetReplicationHook(func(e *wal.ReplicationEntry) {
		mu.Lock()
		streamed = append(streamed, append([]byte(nil), e.Payload...))
		mu.Unlock()
	})
	writerStorage, _ := storage.NewLocalBackend(writerDir, zerolog.Nop())
	writerBuf := ingest.NewArrowBuffer(cfg(), writerStorage, zerolog.Nop())
	writerBuf.SetWAL(w)
	rec := &models.ColumnarRecord{
		Measurement: "cpu",
		Columnar:    true,
		Columns: map[string][]interface{}{
			"time": {int64(1700000000000000)},
			"host": {"a"},
			"v":    {int64(1)},
		},
		TagColumns: []string{"host"},
	}
	if err := writerBuf.WriteColumnarRecord(ctx, "prod", rec); err != nil {
		t.Fatal(err)
	}
	deadline := time.Now().Add(10 * time.Second)
	for {
		mu.Lock()
		n := len(streamed)
		mu.Unlock()
		if n >= 1 {
			break
		}
		if time.Now().After(deadline) {
			t.Fatal("the replication hook was not called")
		}
		time.Sleep(5 * time.Millisecond)
	}
	if err := writerBuf.Close(); err != nil {
		t.Fatal(err)
	}
	_ = w.Close()
	if got := verifStoredUnder(writerDir); strings.Join(got, ",") != "prod/cpu" {
		t.Fatalf("writer stored under %v, expected prod/cpu", got)
	}

	// reader node: the real ingest handler applied to the streamed payloads
	readerStorage, _ := storage.NewLocalBackend(readerDir, zerolog.Nop())
	readerBuf := ingest.NewArrowBuffer(cfg(), readerStorage, zerolog.Nop())
	c := &Coordinator{ingestBuffer: readerBuf, logger: zerolog.Nop()}
	h := c.buildReplicationIngestHandler()
	mu.Lock()
	payloads := streamed
	mu.Unlock()
	for _, p := range payloads {
		if err := h.ApplyReplicatedEntry(ctx, p); err != nil {
			t.Fatal(err)
		}
	}
	if err := readerBuf.Close(); err != nil {
		t.Fatal(err)
	}
	if got := verifStoredUnder(readerDir); strings.Join(got, ",") != "prod/cpu" {
		t.Fatalf("the write was stored under prod/cpu on the writer; the reader stored the replicated rows under %v", got)
	}
}
