package wal

// Demonstration for the C06 known finding `wal-resync-after-corrupt-length`.
// A WAL file holds two genuine entries. The first entry's payload carries, inside an opaque binary column value,
// bytes that happen to look like a complete WAL frame (a client can store any bytes). One byte of the first
// entry's LENGTH field is then corrupted. The reader reads a short payload, sees a checksum mismatch, and
// `continue`s at the offset the corrupted length implies — which is in the middle of the genuine payload, exactly
// where the embedded bytes start. It accepts them as an entry: ReadAll yields an entry that was never appended.

import (
	"encoding/binary"
	"hash/crc32"
	"os"
	"path/filepath"
	"testing"
	"time"

	"github.com/Basekick-Labs/msgpack/v6"
	"github.com/rs/zerolog"
)

func TestVerifDemoResyncYieldsForgedFrame(t *testing.T) {
	dir := t.TempDir()
	w, err := NewWriter(&WriterConfig{WALDir: dir, SyncMode: SyncModeFsync, MaxSizeBytes: 100 << 20, Logger: zerolog.Nop()})
	if err != nil {
		t.Fatal(err)
	}
	// the bytes that look like a frame
	forgedPayload, _ := msgpack.Marshal(map[string]interface{}{
		"m":       "forged",
		"columns": map[string]interface{}{"time": []interface{}{int64(1)}, "v": []interface{}{int64(666)}},
	})
	frame := make([]byte, 16+len(forgedPayload))
	binary.BigEndian.PutUint32(frame[0:4], uint32(len(forgedPayload)))
	binary.BigEndian.PutUint64(frame[4:12], 1)
	binary.BigEndian.PutUint32(frame[12:16], crc32.ChecksumIEEE(forgedPayload))
	copy(frame[16:], forgedPayload)
	// the blob is the LAST thing in the genuine payload and is padded so that the embedded frame starts exactly
	// 256 bytes before the end of the stored payload: a one-byte change of the length field (minus 0x100) then
	// makes the reader resume at the embedded frame.
	if len(frame) > 250 {
		t.Fatalf("frame too long for this construction: %d", len(frame))
	}
	blob := append(append([]byte{}, frame...), make([]byte, 256-len(frame))...)
	// msgpack encodes map entries in insertion order only for ordered encoders; build the payload by hand so the
	// blob is last: {"m":"real","columns":{"time":[1],"blob":[bin]}}
	enc := func(v interface{}) []byte { b, _ := msgpack.Marshal(v); return b }
	var p []byte
	p = append(p, 0x82)
	p = append(p, enc("m")...)
	p = append(p, enc("real")...)
	p = append(p, enc("columns")...)
	p = append(p, 0x82)
	p = append(p, enc("time")...)
	p = append(p, enc([]interface{}{int64(1700000000000000)})...)
	p = append(p, enc("blob")...)
	p = append(p, 0x91)         // array of one
	p = append(p, enc(blob)...) // bin8/bin16 header + bytes; the bytes are the tail of the payload
	if err := w.AppendRawWithMeta("db", p); err != nil {
		t.Fatal(err)
	}
	second, _ := msgpack.Marshal(map[string]interface{}{
		"m":       "second",
		"columns": map[string]interface{}{"time": []interface{}{int64(2)}, "v": []interface{}{int64(2)}},
	})
	if err := w.AppendRawWithMeta("db", second); err != nil {
		t.Fatal(err)
	}
	time.Sleep(200 * time.Millisecond)
	if err := w.Close(); err != nil {
		t.Fatal(err)
	}
	files, _ := filepath.Glob(filepath.Join(dir, "*.wal"))
	if len(files) != 1 {
		t.Fatalf("expected one WAL file, got %v", files)
	}
	data, _ := os.ReadFile(files[0])
	// sanity: uncorrupted file reads back exactly the two appended entries
	r0 := NewReader(files[0], zerolog.Nop())
	ents, err := r0.ReadAll()
	if err != nil || len(ents) != 2 {
		t.Fatalf("clean read: %d entries, err %v", len(ents), err)
	}
	// corrupt ONE byte: the third byte of the first entry's big-endian length (value - 0x100)
	L := binary.BigEndian.Uint32(data[7:11])
	if L < 256 || L > 65535 {
		t.Fatalf("unexpected stored length %d", L)
	}
	data[7+2]--
	if err := os.WriteFile(files[0], data, 0600); err != nil {
		t.Fatal(err)
	}
	r := NewReader(files[0], zerolog.Nop())
	ents, err = r.ReadAll()
	if err != nil {
		t.Fatal(err)
	}
	for _, e := range ents {
		if e.ColumnarData != nil && e.ColumnarData.Measurement == "forged" {
			t.Fatalf("ReadAll yielded an entry that was never appended (measurement %q, %d entries in all) after a one-byte corruption of a length field", e.ColumnarData.Measurement, len(ents))
		}
	}
}
