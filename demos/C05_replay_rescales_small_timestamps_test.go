package main

// Demonstration for the C05 known finding `row-replay-renormalises-small-timestamps`: a row-format WAL record
// stores the timestamp already converted to microseconds. Replay sends it through the same unit auto-detection
// as raw client payloads, which reads a microsecond value below 1e13 (any instant before 1970-04-26) as
// milliseconds — or, below 1e10, as seconds — and multiplies it again: the recovered row lands in another year.

import (
	"context"
	"os"
	"path/filepath"
	"sort"
	"strings"
	"testing"
	"time"

	"github.com/basekick-labs/arc/internal/config"
	"github.com/basekick-labs/arc/internal/ingest"
	"github.com/basekick-labs/arc/internal/storage"
	"github.com/basekick-labs/arc/internal/wal"
	"github.com/basekick-labs/arc/pkg/models"
	"github.com/rs/zerolog"
)

func verifPartitions(root string) []string {
	var out []string
	_ = filepath.Walk(root, func(p string, info os.FileInfo, err error) error {
		if err == nil && !info.IsDir() && strings.HasSuffix(p, ".parquet") {
			rel, _ := filepath.Rel(root, filepath.Dir(p))
			out = append(out, filepath.ToSlash(rel))
		}
		return nil
	})
	sort.Strings(out)
	return out
}

func TestVerifDemoRowReplayKeepsSmallTimestamps(t *testing.T) {
	cfg := func() *config.IngestConfig {
		return &config.IngestConfig{MaxBufferSize: 1000000, MaxBufferAgeMS: 600000, FlushWorkers: 2, FlushQueueSize: 10, ShardCount: 4, Compression: "snappy"}
	}
	rec := func() *models.ColumnarRecord {
		// 1970-02-27T20:53:20Z in microseconds, as the line-protocol parser delivers it
		return &models.ColumnarRecord{Measurement: "old", Columnar: true,
			Columns: map[string][]interface{}{"time": {int64(5_000_000_000_000)}, "v": {float64(1)}}}
	}
	ctx := context.Background()
	liveDir := t.TempDir()
	liveStorage, _ := storage.NewLocalBackend(liveDir, zerolog.Nop())
	live := ingest.NewArrowBuffer(cfg(), liveStorage, zerolog.Nop())
	if err := live.WriteColumnarRecord(ctx, "db", rec()); err != nil {
		t.Fatal(err)
	}
	_ = live.Close()
	want := verifPartitions(liveDir)

	walDir, lostDir, recDir := t.TempDir(), t.TempDir(), t.TempDir()
	w, err := wal.NewWriter(&wal.WriterConfig{WALDir: walDir, SyncMode: wal.SyncModeFsync, Logger: zerolog.Nop()})
	if err != nil {
		t.Fatal(err)
	}
	lost, _ := storage.NewLocalBackend(lostDir, zerolog.Nop())
	buf1 := ingest.NewArrowBuffer(cfg(), lost, zerolog.Nop())
	buf1.SetWAL(w)
	t.Cleanup(func() { _ = buf1.Close() })
	if err := buf1.WriteColumnarRecord(ctx, "db", rec()); err != nil {
		t.Fatal(err)
	}
	deadline := time.Now().Add(10 * time.Second)
	for w.Stats()["total_entries"].(int64) < 1 {
		if time.Now().After(deadline) {
			t.Fatal("WAL writer did not persist the entry")
		}
		time.Sleep(5 * time.Millisecond)
	}
	_ = w.Close()
	recStorage, _ := storage.NewLocalBackend(recDir, zerolog.Nop())
	buf2 := ingest.NewArrowBuffer(cfg(), recStorage, zerolog.Nop())
	if _, err := wal.NewRecovery(walDir, zerolog.Nop()).RecoverWithOptions(ctx, createWALRecoveryCallback(buf2, zerolog.Nop()),
		&wal.RecoveryOptions{BatchSize: 10000, ColumnarCallback: createColumnarRecoveryCallback(buf2, zerolog.Nop())}); err != nil {
		t.Fatal(err)
	}
	_ = buf2.Close()
	got := verifPartitions(recDir)
	if strings.Join(got, ",") != strings.Join(want, ",") {
		t.Fatalf("the crash-free run stored the row under %v; after crash + WAL replay it is under %v (the timestamp was rescaled)", want, got)
	}
}
