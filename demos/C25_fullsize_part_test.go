package filereplication

// Demonstration for C25 on the real puller + real LocalBackend: a transfer rejected by the checksum
// leaves a full-size ".part"; the next attempt must not count the file as already present.

import (
	"context"
	"os"
	"path/filepath"
	"testing"
	"time"

	"github.com/basekick-labs/arc/internal/storage"
	"github.com/rs/zerolog"
)

func TestVerifFullSizeStagingIsNotPresent(t *testing.T) {
	root := t.TempDir()
	be, err := storage.NewLocalBackend(root, zerolog.Nop())
	if err != nil {
		t.Fatal(err)
	}
	good := []byte("GOOD-GOOD-GOOD-1")
	bad := []byte("BAD!-BAD!-BAD!-2")
	fetcher := newFakeFetcher(
		fakeFetchResult{body: bad, err: ErrChecksumMismatch}, // corrupted in transit, rejected by the digest
		fakeFetchResult{body: good},                          // a healthy peer afterwards
	)
	p, err := New(Config{
		SelfNodeID: "reader-1", Backend: be, Fetcher: fetcher,
		PeerResolver: staticResolver{nodeID: "writer-1", addrs: []string{"peer:1"}, ok: true},
		Workers:      1, QueueSize: 8, RetryMaxAttempts: 3, RetryInitialBackoff: 5 * time.Millisecond,
		FetchTimeout: 2 * time.Second, Logger: zerolog.Nop(),
	})
	if err != nil {
		t.Fatal(err)
	}
	p.Start(context.Background())
	defer p.Stop()
	entry := makeEntry("testdb/cpu/2026/04/11/15/f.parquet", "writer-1", int64(len(good)))
	p.Enqueue(entry)
	deadline := time.Now().Add(5 * time.Second)
	for time.Now().Before(deadline) {
		s := p.Stats()
		if s["skipped_local"]+s["pulled"]+s["failed"] > 0 {
			break
		}
		time.Sleep(10 * time.Millisecond)
	}
	time.Sleep(50 * time.Millisecond)
	final := filepath.Join(root, entry.Path)
	data, rerr := os.ReadFile(final)
	stats := p.Stats()
	if rerr != nil {
		t.Fatalf("puller settled (stats %v) but the final path is missing: %v", stats, rerr)
	}
	if string(data) != string(good) {
		t.Fatalf("final path holds %q, want the verified content", data)
	}
}
