package main

// Demonstration for the C07 known finding `purge-before-replay`. The periodic WAL maintenance tick in main.go,
// on its flush-failure branch, executes
//     walWriter.PurgeOlderThan(safeAge)      // "purge old WAL files first"
//     recovery.RecoverWithOptions(...)        // then replay what is left
// in that order. This test performs exactly those two calls, with the real writer, recovery and callbacks, after a
// storage outage that lasted longer than safeAge: the rotated WAL file holding the acknowledged rows whose flush
// failed is older than safeAge, is purged, and the replay finds nothing.

import (
	"context"
	"errors"
	"os"
	"path/filepath"
	"strings"
	"testing"
	"time"

	"github.com/basekick-labs/arc/internal/config"
	"github.com/basekick-labs/arc/internal/ingest"
	"github.com/basekick-labs/arc/internal/storage"
	"github.com/basekick-labs/arc/internal/wal"
	"github.com/basekick-labs/arc/pkg/models"
	"github.com/rs/zerolog"
)

// outageStorage fails every write while down.
type outageStorage struct {
	storage.Backend
	down bool
}

func (o *outageStorage) Write(ctx context.Context, path string, data []byte) error {
	if o.down {
		return errors.New("storage outage")
	}
	return o.Backend.Write(ctx, path, data)
}

func TestVerifDemoPurgeBeforeReplayLosesRows(t *testing.T) {
	ctx := context.Background()
	walDir, dataDir := t.TempDir(), t.TempDir()
	// MaxSizeBytes 1: the WAL rotates right after every entry, so the entry's file is a rotated (inactive) one
	w, err := wal.NewWriter(&wal.WriterConfig{WALDir: walDir, SyncMode: wal.SyncModeFsync, MaxSizeBytes: 1, Logger: zerolog.Nop()})
	if err != nil {
		t.Fatal(err)
	}
	local, _ := storage.NewLocalBackend(dataDir, zerolog.Nop())
	store := &outageStorage{Backend: local, down: true}
	cfg := &config.IngestConfig{MaxBufferSize: 1000000, MaxBufferAgeMS: 600000, FlushWorkers: 2, FlushQueueSize: 10, ShardCount: 4, Compression: "snappy"}
	buf := ingest.NewArrowBuffer(cfg, store, zerolog.Nop())
	buf.SetWAL(w)
	defer buf.Close()

	// an acknowledged write, logged in the WAL
	if err := buf.WriteColumnarRecord(ctx, "tenant_a", &models.ColumnarRecord{Measurement: "cpu", Columnar: true,
		Columns: map[string][]interface{}{"time": {int64(1700000000000000)}, "host": {"h1"}, "usage": {float64(1.5)}}, TagColumns: []string{"host"}}); err != nil {
		t.Fatal(err)
	}
	deadline := time.Now().Add(10 * time.Second)
	for w.Stats()["total_entries"].(int64) < 1 {
		if time.Now().After(deadline) {
			t.Fatal("WAL writer did not persist the entry")
		}
		time.Sleep(5 * time.Millisecond)
	}
	// the flush fails (outage): rows leave the buffer, flush failure is recorded, data "preserved in WAL"
	_ = buf.FlushAll(ctx)
	if !buf.HasFlushFailure() {
		t.Fatal("expected a recorded flush failure")
	}
	// the WAL rotates (size/age), and the outage lasts longer than safeAge: the rotated file is now old
	time.Sleep(100 * time.Millisecond)
	safeAge := 30 * time.Second
	past := time.Now().Add(-2 * safeAge)
	files, _ := filepath.Glob(filepath.Join(walDir, "*.wal"))
	aged := 0
	for _, f := range files {
		if f != w.CurrentFile() {
			if err := os.Chtimes(f, past, past); err != nil {
				t.Fatal(err)
			}
			aged++
		}
	}
	if aged == 0 {
		t.Fatal("expected a rotated WAL file")
	}
	store.down = false // storage is back

	// ---- one maintenance tick, flush-failure branch, in main.go's order ----
	if _, err := w.PurgeOlderThan(safeAge); err != nil {
		t.Fatal(err)
	}
	if _, err := wal.NewRecovery(walDir, zerolog.Nop()).RecoverWithOptions(ctx, createWALRecoveryCallback(buf, zerolog.Nop()),
		&wal.RecoveryOptions{SkipActiveFile: w.CurrentFile(), BatchSize: 10000, ColumnarCallback: createColumnarRecoveryCallback(buf, zerolog.Nop())}); err != nil {
		t.Fatal(err)
	}
	buf.ResetFlushFailure()
	// -----------------------------------------------------------------------
	if err := buf.FlushAll(ctx); err != nil {
		t.Fatal(err)
	}
	found := false
	_ = filepath.Walk(dataDir, func(p string, info os.FileInfo, err error) error {
		if err == nil && !info.IsDir() && strings.HasSuffix(p, ".parquet") && strings.Contains(filepath.ToSlash(p), "tenant_a/cpu/") {
			found = true
		}
		return nil
	})
	if !found {
		t.Fatalf("storage works again and the maintenance tick ran, but the acknowledged row is neither stored nor in any WAL file: the age-based purge deleted its WAL file before the replay")
	}
}
