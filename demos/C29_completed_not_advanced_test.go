package api

// Demonstration for the C29 known finding `cq-completed-not-advanced`.
//
// ExecuteCQ writes the window's rows, then records the execution and advances last_processed_time in one
// SQLite transaction. When that transaction fails the error is only logged: the caller gets status
// "completed", the rows are in the ingest buffer, and the window has NOT advanced — so the next scheduled
// execution starts at the same start time and processes (and writes) the same window again.
//
// The test makes the record-and-advance transaction fail (a trigger makes every insert into the executions table fail, standing in for any SQLite write error
// ), runs the scheduled entry point twice, and shows: both runs report "completed", both
// wrote the window's row, and both started at the same stored last_processed_time.

import (
	"context"
	"database/sql"
	"os"
	"path/filepath"
	"testing"

	"github.com/basekick-labs/arc/internal/config"
	"github.com/basekick-labs/arc/internal/database"
	"github.com/basekick-labs/arc/internal/ingest"
	"github.com/basekick-labs/arc/internal/storage"
	"github.com/rs/zerolog"
)

func TestVerifDemoCQCompletedNotAdvanced(t *testing.T) {
	tmp := t.TempDir()
	logger := zerolog.New(os.Stderr).Level(zerolog.Disabled)
	backend, err := storage.NewLocalBackend(tmp, logger)
	if err != nil {
		t.Fatal(err)
	}
	duck, err := database.New(&database.Config{MemoryLimit: "256MB", ThreadCount: 2, MaxConnections: 2, LocalStorageRoot: tmp}, logger)
	if err != nil {
		t.Fatal(err)
	}
	defer duck.Close()
	buf := ingest.NewArrowBuffer(&config.IngestConfig{MaxBufferSize: 100000, MaxBufferAgeMS: 60000, FlushWorkers: 1, FlushQueueSize: 4}, backend, logger)
	defer buf.Close()

	sqliteDB, err := sql.Open("sqlite3", filepath.Join(tmp, "cq.db"))
	if err != nil {
		t.Fatal(err)
	}
	defer sqliteDB.Close()
	h := &ContinuousQueryHandler{db: duck, storage: backend, arrowBuffer: buf, sqliteDB: sqliteDB, logger: logger}
	if err := h.initTables(); err != nil {
		t.Fatal(err)
	}
	const last = "2024-01-01T00:00:00Z"
	res, err := sqliteDB.Exec(`INSERT INTO continuous_queries
		(name, database, source_measurement, destination_measurement, query, interval, is_active, last_processed_time)
		VALUES ('demo', 'db', 'src', 'dst', 'SELECT 42 AS v', '1m', 1, ?)`, last)
	if err != nil {
		t.Fatalf("insert cq: %v", err)
	}
	id, _ := res.LastInsertId()

	// fault: the record-and-advance transaction cannot succeed
	if _, err := sqliteDB.Exec(`CREATE TRIGGER verif_fail BEFORE INSERT ON continuous_query_executions BEGIN SELECT RAISE(FAIL, 'simulated write failure'); END`); err != nil {
		t.Fatal(err)
	}

	run := func() *ExecuteCQResponse {
		r, err := h.ExecuteCQ(context.Background(), id)
		if err != nil {
			t.Fatalf("ExecuteCQ: %v", err)
		}
		return r
	}
	r1 := run()
	r2 := run()
	var stored string
	if err := sqliteDB.QueryRow(`SELECT last_processed_time FROM continuous_queries WHERE id = ?`, id).Scan(&stored); err != nil {
		t.Fatal(err)
	}
	t.Logf("run1: status=%s start=%s end=%s written=%d", r1.Status, r1.StartTime, r1.EndTime, r1.RecordsWritten)
	t.Logf("run2: status=%s start=%s end=%s written=%d", r2.Status, r2.StartTime, r2.EndTime, r2.RecordsWritten)
	t.Logf("stored last_processed_time after both runs: %s", stored)
	if r1.Status == "completed" && r2.Status == "completed" && r1.RecordsWritten > 0 && r2.RecordsWritten > 0 && r1.StartTime == r2.StartTime {
		t.Fatalf("window [%s, …) was reported completed and written twice; last_processed_time never advanced (still %s)", r1.StartTime, stored)
	}
}
