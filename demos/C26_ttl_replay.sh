#!/bin/bash
# Demonstrates the replay window when the nonce-cache TTL equals the freshness tolerance.
# Clock replay: time.Now in nonce_cache.go / auth.go is redirected to a package variable through
# `go test -overlay` (no file under /repo is written). Usage: C26_ttl_replay.sh <ttl-expression>
# e.g.  HMACTimestampTolerance            (what the construction sites passed before the fix)
#       2*HMACTimestampTolerance+time.Second
set -e
TTL="${1:-HMACTimestampTolerance}"
export PATH=/opt/veriftools/go1.26.8/bin:$PATH GOTOOLCHAIN=local GOPROXY=off GOSUMDB=off; unset GOFLAGS
T=$(mktemp -d); trap 'rm -rf $T' EXIT
P=/repo/internal/cluster/security
sed 's/time\.Now()/verifNow()/g' $P/nonce_cache.go > $T/nonce_cache.go
sed 's/time\.Now()/verifNow()/g' $P/auth.go > $T/auth.go
cat > $T/zz_clock_test.go <<GO
package security

import (
	"testing"
	"time"
)

var verifClock = time.Unix(1800000000, 0)

func verifNow() time.Time { return verifClock }

func TestVerifReplayWindow(t *testing.T) {
	tol := HMACTimestampTolerance
	nc := NewNonceCache($TTL)
	secret, nonce, node, cl := "s3cret-s3cret-s3cret-s3cret-0000", "n1", "node-a", "c"
	ts := verifClock.Add(tol).Unix() // sender's clock is ahead by exactly the tolerance
	mac := ComputeHMAC(secret, MsgTypeJoin, nonce, node, cl, ts)
	if err := ValidateHMAC(secret, MsgTypeJoin, nonce, node, cl, ts, mac, tol); err != nil {
		t.Fatalf("first delivery rejected: %v", err)
	}
	if !nc.Track(node, nonce) {
		t.Fatal("first delivery: nonce already seen")
	}
	verifClock = verifClock.Add(tol) // the captured request is replayed one tolerance later
	if err := ValidateHMAC(secret, MsgTypeJoin, nonce, node, cl, ts, mac, tol); err != nil {
		t.Skipf("replay no longer fresh: %v", err)
	}
	if nc.Track(node, nonce) {
		t.Fatalf("REPLAY ACCEPTED: same (node, nonce, timestamp, MAC) passed freshness and the nonce cache twice")
	}
}
GO
cat > $T/ov.json <<J
{"Replace": {"$P/nonce_cache.go": "$T/nonce_cache.go", "$P/auth.go": "$T/auth.go", "$P/zz_clock_test.go": "$T/zz_clock_test.go"}}
J
cd /repo && go test -overlay $T/ov.json -vet=off -count=1 -timeout 120s -run '^TestVerifReplayWindow$' ./internal/cluster/security
