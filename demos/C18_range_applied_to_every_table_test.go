package pruning

// Demonstration for C18 (`pruner-range-applied-to-every-table`, open): the time range read from the statement's
// (first) WHERE clause is applied to EVERY table the statement reads - OptimizeTablePath is called once per table
// reference with the whole statement text. A bound on the outer table thereby also restricts the files read for a
// table in a subquery or on the other side of a join, whose rows the bound says nothing about.

import (
	"context"
	"os"
	"path/filepath"
	"strings"
	"testing"

	"github.com/rs/zerolog"
)

func TestVerifDemoRangeOfOuterTableNotAppliedToSubqueryTable(t *testing.T) {
	base := t.TempDir()
	in := filepath.Join(base, "default", "mem", "2024", "03", "15", "10")
	out := filepath.Join(base, "default", "mem", "2024", "03", "20", "12")
	for _, d := range []string{in, out} {
		if err := os.MkdirAll(d, 0o755); err != nil {
			t.Fatal(err)
		}
		if err := os.WriteFile(filepath.Join(d, "mem_1.parquet"), []byte("x"), 0o644); err != nil {
			t.Fatal(err)
		}
	}
	p := NewPartitionPruner(zerolog.Nop())
	// the hosts are looked up in ALL of mem; only cpu is restricted to the 15th
	q := "SELECT * FROM cpu WHERE time >= '2024-03-15 00:00:00' AND time < '2024-03-16 00:00:00' AND host IN (SELECT host FROM mem)"
	got, optimized := p.OptimizeTablePath(context.Background(), base+"/default/mem/**/*.parquet", q)
	if !optimized {
		return
	}
	var paths []string
	switch v := got.(type) {
	case string:
		paths = []string{v}
	case []string:
		paths = v
	}
	for _, pth := range paths {
		if strings.Contains(pth, "2024/03/20") || strings.HasSuffix(pth, "mem/**/*.parquet") {
			return
		}
	}
	t.Fatalf("%q reads every row of mem, but the files read for mem are %v: the partition of 2024-03-20 is skipped because of the bound on cpu's time", q, paths)
}
