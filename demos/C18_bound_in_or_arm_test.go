package pruning

// Demonstration for C18 (`pruner-bound-not-a-top-level-conjunct`): ExtractTimeRange matched its time-comparison
// patterns anywhere after WHERE. A bound inside one arm of an OR, under a NOT, in a comment, in a subquery over
// another table or on a column whose name ends in "time" was used as a bound on every row, and the files outside it
// were not read.

import (
	"testing"
	"time"

	"github.com/rs/zerolog"
)

func TestVerifDemoBoundInOrArmIsNoBound(t *testing.T) {
	p := NewPartitionPruner(zerolog.Nop())
	// a row of host b on 2024-03-20 satisfies every one of these predicates
	row := time.Date(2024, 3, 20, 12, 0, 0, 0, time.UTC)
	for _, q := range []string{
		"SELECT * FROM cpu WHERE (time >= '2024-03-15' AND time < '2024-03-16') OR host = 'b'",
		"SELECT * FROM cpu WHERE time >= '2024-03-15' AND time < '2024-03-16' OR host = 'b'",
		"SELECT * FROM cpu WHERE NOT (time >= '2024-03-15' AND time < '2024-03-16')",
		"SELECT * FROM cpu WHERE host = 'b' -- AND time >= '2024-03-15' AND time < '2024-03-16'",
		"SELECT * FROM cpu WHERE host = 'b' AND ts IN (SELECT ts FROM m WHERE time >= '2024-03-15' AND time < '2024-03-16')",
		"SELECT * FROM cpu WHERE host = 'b' AND event_time >= '2024-03-15' AND event_time < '2024-03-16'",
		"SELECT * FROM cpu WHERE time >= '2024-03-15' AND time < '2024-03-16' UNION ALL SELECT * FROM cpu WHERE host = 'b'",
	} {
		if tr := p.ExtractTimeRange(q); tr != nil && (row.Before(tr.Start) || row.After(tr.End)) {
			t.Fatalf("%q selects the host-b row of %s, but only the files of %s .. %s are read", q, row.Format(time.RFC3339), tr.Start.Format(time.RFC3339), tr.End.Format(time.RFC3339))
		}
	}
}
