package main

// Demonstration for C07 (`multi-hour-partial-flush-stores-rows-twice`): a buffer whose rows span several hours is
// flushed as one Parquet file per hour. When the write of a later hour fails, the flush returns an error - the flush
// failure flag is set and the maintenance tick replays the batch from the WAL - but the hour files ALREADY written
// by the failed flush stayed in storage (they were merely not registered in the manifest; queries read the
// measurement's directory tree). After the replay those hours' rows are stored twice.
// Real ArrowBuffer, WAL writer, recovery and main.go's recovery callbacks; the storage double fails exactly one Write.

import (
	"context"
	"database/sql"
	"errors"
	"fmt"
	"path/filepath"
	"sync"
	"testing"
	"time"

	"github.com/basekick-labs/arc/internal/config"
	"github.com/basekick-labs/arc/internal/ingest"
	"github.com/basekick-labs/arc/internal/storage"
	"github.com/basekick-labs/arc/internal/wal"
	"github.com/basekick-labs/arc/pkg/models"
	_ "github.com/duckdb/duckdb-go/v2"
	"github.com/rs/zerolog"
)

// verifFailNthWrite fails the n-th Write (1-based) and no other.
type verifFailNthWrite struct {
	storage.Backend
	mu   sync.Mutex
	n    int
	seen int
}

func (o *verifFailNthWrite) Write(ctx context.Context, path string, data []byte) error {
	o.mu.Lock()
	o.seen++
	fail := o.seen == o.n
	o.mu.Unlock()
	if fail {
		return errors.New("transient storage error")
	}
	return o.Backend.Write(ctx, path, data)
}

func TestVerifDemoMultiHourPartialFlushStoresNothingTwice(t *testing.T) {
	ctx := context.Background()
	walDir, dataDir := t.TempDir(), t.TempDir()
	w, err := wal.NewWriter(&wal.WriterConfig{WALDir: walDir, SyncMode: wal.SyncModeFsync, MaxSizeBytes: 1, Logger: zerolog.Nop()})
	if err != nil {
		t.Fatal(err)
	}
	local, _ := storage.NewLocalBackend(dataDir, zerolog.Nop())
	store := &verifFailNthWrite{Backend: local, n: 2} // the second hour file of the first flush
	cfg := &config.IngestConfig{MaxBufferSize: 1000000, MaxBufferAgeMS: 600000, FlushWorkers: 2, FlushQueueSize: 10, ShardCount: 4, Compression: "snappy"}
	buf := ingest.NewArrowBuffer(cfg, store, zerolog.Nop())
	buf.SetWAL(w)
	defer buf.Close()

	// one acknowledged write of three rows in three different hours
	h := int64(3600 * 1000000)
	t0 := int64(1700000000000000)
	if err := buf.WriteColumnarRecord(ctx, "db", &models.ColumnarRecord{Measurement: "cpu", Columnar: true,
		Columns:    map[string][]interface{}{"time": {t0, t0 + h, t0 + 2*h}, "host": {"h1", "h2", "h3"}, "v": {int64(1), int64(2), int64(3)}},
		TagColumns: []string{"host"}}); err != nil {
		t.Fatal(err)
	}
	deadline := time.Now().Add(10 * time.Second)
	for w.Stats()["total_entries"].(int64) < 1 {
		if time.Now().After(deadline) {
			t.Fatal("WAL writer did not persist the entry")
		}
		time.Sleep(5 * time.Millisecond)
	}
	_ = buf.FlushAll(ctx) // the second hour's write fails
	if !buf.HasFlushFailure() {
		t.Skip("the flush did not fail (hour files are written in map order; the injected failure needs at least two writes)")
	}
	time.Sleep(100 * time.Millisecond)
	// ---- one maintenance tick, flush-failure branch: replay what the WAL holds ----
	if _, err := wal.NewRecovery(walDir, zerolog.Nop()).RecoverWithOptions(ctx, createWALRecoveryCallback(buf, zerolog.Nop()),
		&wal.RecoveryOptions{SkipActiveFile: w.CurrentFile(), BatchSize: 10000, ColumnarCallback: createColumnarRecoveryCallback(buf, zerolog.Nop())}); err != nil {
		t.Fatal(err)
	}
	buf.ResetFlushFailure()
	if err := buf.FlushAll(ctx); err != nil {
		t.Fatal(err)
	}
	db, err := sql.Open("duckdb", "")
	if err != nil {
		t.Fatal(err)
	}
	defer db.Close()
	rows, err := db.Query(fmt.Sprintf("SELECT host, count(*) FROM read_parquet('%s', union_by_name=true) GROUP BY host ORDER BY host", filepath.Join(dataDir, "db", "cpu", "**", "*.parquet")))
	if err != nil {
		t.Fatal(err)
	}
	defer rows.Close()
	got := ""
	for rows.Next() {
		var host string
		var n int
		if err := rows.Scan(&host, &n); err != nil {
			t.Fatal(err)
		}
		got += fmt.Sprintf("%s x%d ", host, n)
	}
	if got != "h1 x1 h2 x1 h3 x1 " {
		t.Fatalf("one acknowledged write of h1, h2, h3; after the failed flush and the WAL replay the measurement holds: %s", got)
	}
}
