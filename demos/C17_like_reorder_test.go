package api

// Demonstration for the C17 known finding `like-reorder-across-or`: optimizeMultiplePredicates moves a trailing
// `AND col <> ''` to the front of the WHERE clause whatever stands in between. When the middle part contains a
// top-level OR, AND's higher precedence makes the two texts different predicates:
//     WHERE a LIKE '%x%' OR b LIKE '%y%' AND s <> ''      =  a LIKE .. OR (b LIKE .. AND s <> '')
//     WHERE s <> '' AND a LIKE '%x%' OR b LIKE '%y%'      =  (s <> '' AND a LIKE ..) OR b LIKE ..
// Both are evaluated in the real DuckDB on a three-row table.

import (
	"database/sql"
	"testing"

	_ "github.com/duckdb/duckdb-go/v2"
)

func TestVerifDemoLikeReorderAcrossOr(t *testing.T) {
	db, err := sql.Open("duckdb", "")
	if err != nil {
		t.Fatal(err)
	}
	defer db.Close()
	if _, err := db.Exec("CREATE TABLE hits(id INT, a VARCHAR, b VARCHAR, s VARCHAR); INSERT INTO hits VALUES (1, 'xx', 'no', ''), (2, 'no', 'yy', ''), (3, 'no', 'yy', 'q')"); err != nil {
		t.Fatal(err)
	}
	original := "SELECT string_agg(CAST(id AS VARCHAR), ',' ORDER BY id) FROM hits WHERE a LIKE '%x%' OR b LIKE '%y%' AND s <> ''"
	rewritten, changed := OptimizeLikePatterns(original)
	if !changed {
		t.Skip("the optimizer left the query alone")
	}
	var want, got sql.NullString
	if err := db.QueryRow(original).Scan(&want); err != nil {
		t.Fatal(err)
	}
	if err := db.QueryRow(rewritten).Scan(&got); err != nil {
		t.Fatal(err)
	}
	if want != got {
		t.Fatalf("DuckDB selects rows {%s} for\n  %s\nand rows {%s} for the optimizer's rewrite\n  %s", want.String, original, got.String, rewritten)
	}
}
