package auth

// History replay for C20 on the real RBAC manager (SQLite, ON DELETE CASCADE): the per-token RBAC data that
// permission checks are computed from must not survive the deletion of the organization that granted it.

import (
	"context"
	"testing"
)

func TestVerifDeleteOrganizationDropsCachedGrants(t *testing.T) {
	rm, am, cleanup := setupTestRBACManager(t)
	defer cleanup()
	ctx := context.Background()
	tok, err := am.CreateToken(ctx, "c20-token", "", "read", nil)
	if err != nil {
		t.Fatal(err)
	}
	ti := am.VerifyToken(tok)
	if ti == nil {
		t.Fatal("token did not verify")
	}
	org, err := rm.CreateOrganization(ctx, &CreateOrganizationRequest{Name: "acme"})
	if err != nil {
		t.Fatal(err)
	}
	team, err := rm.CreateTeam(ctx, org.ID, &CreateTeamRequest{Name: "ops"})
	if err != nil {
		t.Fatal(err)
	}
	if _, err := rm.CreateRole(ctx, team.ID, &CreateRoleRequest{DatabasePattern: "prod", Permissions: []string{"read", "write"}}); err != nil {
		t.Fatal(err)
	}
	if _, err := rm.AddTokenToTeam(ctx, ti.ID, team.ID); err != nil {
		t.Fatal(err)
	}
	before, err := rm.getTokenRBACData(ti.ID) // what a permission check does first; fills the cache
	if err != nil || len(before.teams) != 1 {
		t.Fatalf("setup: want 1 team, got %+v (%v)", before, err)
	}
	if err := rm.DeleteOrganization(ctx, org.ID); err != nil {
		t.Fatal(err)
	}
	after, err := rm.getTokenRBACData(ti.ID)
	if err != nil {
		t.Fatal(err)
	}
	if len(after.teams) != 0 {
		t.Fatalf("the organization (and by cascade its team, role and membership) is deleted, but permission checks still see %d team(s) with %d role(s) from the cache", len(after.teams), len(after.roles[team.ID]))
	}
}
