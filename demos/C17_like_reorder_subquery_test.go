package api

// Demonstration for C17 (`like-reorder-out-of-subquery`): the lazy middle group of patternEndEmptyCheck starts at
// the FIRST `WHERE` of the text. When the trailing `AND col <> ''` belongs to a subquery, the text between the
// outer WHERE and it contains an unbalanced `(`, and the optimizer moves the inner predicate into the OUTER WHERE
// clause — a different query (here: one that no longer binds).

import (
	"database/sql"
	"testing"

	_ "github.com/duckdb/duckdb-go/v2"
)

func TestVerifDemoLikeReorderOutOfSubquery(t *testing.T) {
	db, err := sql.Open("duckdb", "")
	if err != nil {
		t.Fatal(err)
	}
	defer db.Close()
	if _, err := db.Exec("CREATE TABLE t(a INT); CREATE TABLE u(b INT, c VARCHAR, s VARCHAR); INSERT INTO t VALUES (1),(2); INSERT INTO u VALUES (1,'xx','q'),(2,'xx','')"); err != nil {
		t.Fatal(err)
	}
	original := "SELECT count(*) FROM t WHERE a IN (SELECT b FROM u WHERE c LIKE '%x%' AND c NOT LIKE '%y%' AND s <> '' GROUP BY b)"
	rewritten, changed := OptimizeLikePatterns(original)
	if !changed {
		t.Skip("the optimizer left the query alone")
	}
	var want, got int
	if err := db.QueryRow(original).Scan(&want); err != nil {
		t.Fatal(err)
	}
	if err := db.QueryRow(rewritten).Scan(&got); err != nil {
		t.Fatalf("the original query runs (count %d); the optimizer's rewrite does not:\n  %s\n  %v", want, rewritten, err)
	}
	if want != got {
		t.Fatalf("original counts %d, rewrite %s counts %d", want, rewritten, got)
	}
}
