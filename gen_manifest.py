#!/usr/bin/env python3
"""Regenerates MANIFEST.json from claims.json (developer tool; not used by checks)."""
import json, subprocess
TECH = "contract-based deductive verification (govc: weakest-precondition VCs over go/ssa + z3/cvc5)"
CLAIMS = json.load(open('/verif/claims.json'))
NA_REASON = json.load(open('/verif/na_reasons.json'))
props = [json.loads(l) for l in open('/verif/properties.jsonl')]
commits = subprocess.check_output(['git', '-C', '/repo', 'log', '--format=%h %s'], text=True).splitlines()
hook_commits = [c.split()[0] for c in commits if c.split(' ', 1)[1].startswith('verif:')]
m = {
 "version": 1, "setup_cmd": "./setup.sh",
 "hooks": {"guard": "verif",
           "enable": "go build -tags verif — the only guarded files are comment-only contract files (*/zz_contracts_verif.go: a build constraint, a package clause and //@ comments); they add no code",
           "baseline_off_cmd": "cd /repo && go test -vet=off -count=1 -timeout 25m ./...",
           "source_commits": hook_commits, "add_only": True},
 "engines": [{"name": "govc", "path": "/verif/govc", "serves_properties": sorted(CLAIMS),
              "kind_free_text": "contract-based deductive verifier for Go built here: //@ contracts in guarded comment-only files, VC generation by symbolic execution of go/ssa (loops cut at invariants, calls by callee contract), obligations raced on z3 4.8.12 / z3 5.1.0 / cvc5, counterexamples replayed on the real code with go test -overlay"}],
 "checks": [], "not_applicable": [],
 "notes": "See DESIGN.md. ./check <id> [quick|thorough]; known findings in known_findings.json; baseline of discharged obligations in expected_obligations.json.",
}
for p in props:
    i = p["id"]
    if i in CLAIMS:
        c = CLAIMS[i]
        m["checks"].append({"property_id": i, "quick_cmd": "./check %s quick" % i, "thorough_cmd": "./check %s thorough" % i,
                            "evidence_file": "/verif/evidence/%s.json" % i, "replay_cmd_template": "./check %s --replay {path}" % i, "engine": "govc",
                            "level_claimed": {"category": c["category"], "text": c["text"], "design_ref": "DESIGN.md §8 " + i},
                            "level_note": c["note"], "technique": TECH})
    else:
        m["not_applicable"].append({"property_id": i, "reason": NA_REASON.get(i, "not claimed yet: contracts for this property are still being written (DESIGN.md §8 has the plan)")})
json.dump(m, open('/verif/MANIFEST.json', 'w'), indent=1)
print("claimed:", sorted(CLAIMS))
