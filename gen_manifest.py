#!/usr/bin/env python3
"""Regenerates MANIFEST.json from the table below (developer tool; not used by checks)."""
import json, subprocess

TECH = "contract-based deductive verification (govc: weakest-precondition VCs over go/ssa + z3/cvc5)"

# id -> (category, text, note)
CLAIMS = {
 "C03": ("proof", "Contracts on the real partitioning arithmetic (HourBucketID floor for every int64) discharged for all inputs; the rest of the flush path is not yet under contract.",
         "trusted: govc, go/ssa, SMT solvers. Not covered yet: groupByHour, sort/merge, buffer bookkeeping, schedules."),
 "C06": ("proof", "ParseEnvelope (the reader's envelope decoder) is proved panic-free and functionally exact for every byte string; a genuine uint16-wrap panic was found by the verifier, replayed, and fixed.",
         "trusted: govc, go/ssa, SMT solvers, binary.BigEndian contract. Frame reader loop (readEntry/ReadAll) not yet under contract."),
 "C08": ("proof", "Every os/filepath sink of LocalBackend (15 methods) is reached only with a path proved inside the root by validatePath (ghost `escaped` flag over assumed lexical filepath contracts); Write/WriteReader/AppendReader promote a staging file only after all bytes were written and the file closed without error, and WriteReader only with the declared size. Found and fixed: short clean read promoted; known finding: a key resolving to the root stages outside it.",
         "trusted: govc, go/ssa, SMT solvers; fs.spec (lexical filepath semantics, process-crash FS model, no symlinks); ValidateManifestPath / edge-sync path validators not yet under contract."),
 "C13": ("proof", "restoreDataFiles returns nil only if no per-file restore failed (loop contract with a ghost failure counter), and RestoreBackup reports completion only then; every path including cancellation is covered. The defect (failed file skipped, success reported) was found by the verifier, demonstrated by fault injection on the real code, and fixed.",
         "trusted: govc, go/ssa, SMT solvers; ghost counter contract of streamRestoreFile; backend List completeness; byte fidelity rests on C08. Backup side not yet under contract."),
 "C26": ("proof", "Nonce cache Track/evict contracts (map-level, all states), validator freshness contract, lemma no.replay (ttl >= 2*tol+1s suffices), and call-site obligations that every NewNonceCache construction passes such a TTL. Found TTL=tolerance (fixed) and a MinInt64 drift wrap (known finding).",
         "trusted: govc, go/ssa, SMT solvers, time.spec (ghost clock), HMAC unforgeability; mutex exclusion assumed."),
 "C28": ("proof", "Representation invariant of the sliding-window counter (total = sum of slots, index in range) is preserved by advance and Allow for every state and clock value; Allow admits only below the limit; quota tracker admits only below the hourly/daily maxima and resets only forward.",
         "trusted: govc, go/ssa, SMT solvers, time.spec, sum axioms; physical bound (<2^62 admits) assumed; window.bound across slot boundaries and schedules are not claimed."),
}

NA_REASON = {
 "C16": "no contract within reach can express it: the mechanism is regular-expression rewriting of free SQL text judged against DuckDB's parser and executor (DESIGN.md §9)",
}

props = [json.loads(l) for l in open('/verif/properties.jsonl')]
try:
    commits = subprocess.check_output(['git', '-C', '/repo', 'log', '--format=%h %s'], text=True).splitlines()
except Exception:
    commits = []
hook_commits = [c.split()[0] for c in commits if c.split(' ', 1)[1].startswith('verif:')]

m = {
 "version": 1,
 "setup_cmd": "./setup.sh",
 "hooks": {"guard": "verif",
           "enable": "go build -tags verif — the only guarded files are comment-only contract files (*/zz_contracts_verif.go: a build constraint, a package clause and //@ comments); they add no code",
           "baseline_off_cmd": "cd /repo && go test -vet=off -count=1 -timeout 25m ./...",
           "source_commits": hook_commits, "add_only": True},
 "engines": [{"name": "govc", "path": "/verif/govc", "serves_properties": sorted(CLAIMS),
              "kind_free_text": "contract-based deductive verifier for Go built here: //@ contracts in guarded comment-only files, VC generation by symbolic execution of go/ssa (loops cut at invariants, calls by callee contract), obligations raced on z3 4.8.12 / z3 5.1.0 / cvc5, counterexamples replayed on the real code with go test -overlay"}],
 "checks": [], "not_applicable": [],
 "notes": "See DESIGN.md. ./check <id> [quick|thorough]; known findings in known_findings.json; baseline of discharged obligations in expected_obligations.json.",
}
for p in props:
    i = p["id"]
    if i in CLAIMS:
        cat, text, note = CLAIMS[i]
        m["checks"].append({"property_id": i, "quick_cmd": "./check %s quick" % i, "thorough_cmd": "./check %s thorough" % i,
                            "evidence_file": "/verif/evidence/%s.json" % i, "replay_cmd_template": "./check %s --replay {path}" % i, "engine": "govc",
                            "level_claimed": {"category": cat, "text": text, "design_ref": "DESIGN.md §8 " + i},
                            "level_note": note, "technique": TECH})
    else:
        m["not_applicable"].append({"property_id": i, "reason": NA_REASON.get(i, "not claimed yet: contracts for this property are still being written (DESIGN.md §8 has the plan)")})
json.dump(m, open('/verif/MANIFEST.json', 'w'), indent=1)
print("claimed:", sorted(CLAIMS))
