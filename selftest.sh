#!/bin/bash
# selftest.sh [-j N] [id ...] : must-fail corpus. Applies every selftest/<id>/*.diff and seeded/<id>-*/patch.diff to a
# scratch worktree of /repo in turn (seedtest.sh; /repo itself is never touched), runs the property's quick check
# there and requires a VIOLATION line. Then the benign corpus (selftest_benign/<id>/*.diff) must stay quiet.
# Developer tool, not a registered check. N jobs run side by side (default 4). SELFTEST_PROGRESS=<file> gets one line
# per finished item as it completes.
cd "$(dirname "$0")"
jobs=4
if [ "$1" = "-j" ]; then jobs=$2; shift 2; fi
ids="$*"; [ -z "$ids" ] && ids=$(ls selftest seeded | grep -o '^C[0-9]*' | sort -u)
one() {
  id=$1; p=$2; kind=$3
  out=$(./seedtest.sh "$id" "$PWD/$p" 2>&1)
  if [ "$kind" = mustfail ]; then
    if echo "$out" | grep -q "^VIOLATION property=$id "; then r="caught   $p"; else r="MISSED   $p"$'\n'"$(echo "$out" | tail -3)"; fi
  else
    if echo "$out" | grep -q "^VIOLATION\|^ENGINE"; then r="ALARM    $p"$'\n'"$(echo "$out" | grep "^VIOLATION\|^ENGINE" | head -3)"; else r="quiet    $p"; fi
  fi
  echo "$r"
  # progress file: one line per finished item in completion order (the sorted list is printed at the end)
  if [ -n "${SELFTEST_PROGRESS:-}" ]; then echo "$r" | head -1 >> "$SELFTEST_PROGRESS"; fi
}
export -f one
list=$(for id in $ids; do
  for p in selftest/$id/*.diff seeded/$id-*/patch.diff; do [ -f "$p" ] && echo "$id $p mustfail"; done
  for p in selftest_benign/$id/*.diff; do [ -f "$p" ] && echo "$id $p benign"; done
done)
res=$(echo "$list" | xargs -P $jobs -L 1 bash -c 'one $0 $1 $2')
echo "$res" | sort
if echo "$res" | grep -q "^MISSED\|^ALARM"; then exit 1; fi
exit 0
