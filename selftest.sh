#!/bin/bash
# selftest.sh [id ...] : must-fail corpus. Applies every selftest/<id>/*.diff and seeded/<id>-*/patch.diff to /repo in
# turn, runs the property's quick check and requires a VIOLATION line; restores /repo after each. Developer tool
# (never part of a registered check: it edits the working tree of /repo temporarily).
cd "$(dirname "$0")"
ids="$*"; [ -z "$ids" ] && ids=$(ls selftest seeded | grep -o '^C[0-9]*' | sort -u)
fail=0
for id in $ids; do
  for p in selftest/$id/*.diff seeded/$id-*/patch.diff; do
    [ -f "$p" ] || continue
    out=$(./seedtest.sh "$id" "$PWD/$p" 2>&1)
    if echo "$out" | grep -q "^VIOLATION property=$id "; then echo "caught   $p"; else echo "MISSED   $p"; echo "$out" | tail -3; fail=1; fi
  done
done
exit $fail
