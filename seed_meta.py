#!/usr/bin/env python3
# seed_meta.py <id> <A|B> <check_result text> : write seeded/<id>-<v>/meta.json from the sub-agent's meta.json
import json, sys
id, v, res = sys.argv[1], sys.argv[2], sys.argv[3]
m = json.load(open('/tmp/wt_%s/seed_out/meta.json' % id))
e = m.get(v) or m.get('change_' + v)
out = {
 "property": id, "variant": v,
 "source": "independent sub-agent given only the property text and a scratch worktree",
 "summary": e.get("summary"), "what_it_needs_to_manifest": e.get("what_it_needs_to_manifest"),
 "files_changed": e.get("files_changed"), "demo_test": e.get("demo_test_name"), "demo_package_dir": e.get("demo_package_dir"),
 "confirmed_by": "/verif/seed_confirm.sh %s %s: demo passes on the original, fails with the change; go build ./... ok; the package's existing tests pass with the change" % (id, v),
 "check_result": res,
 "how_to_run": "/verif/seedtest.sh %s /verif/seeded/%s-%s/patch.diff" % (id, id, v),
}
json.dump(out, open('/verif/seeded/%s-%s/meta.json' % (id, v), 'w'), indent=1)
