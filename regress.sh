#!/bin/bash
# regress.sh : runs the quick check of every claimed property in turn (developer tool; prints one line per property plus any UNDECIDED / VIOLATION lines). All lines must read exit=0 undecided=0 viol=0 on an unchanged tree.
cd /verif
for id in $(python3 -c "
import json;print(' '.join(c['property_id'] if 'property_id' in c else c['id'] for c in json.load(open('MANIFEST.json'))['checks']))" 2>/dev/null); do
  t0=$(date +%s); out=$(./check $id quick 2>&1); ec=$?; t1=$(date +%s)
  echo "$id exit=$ec $((t1-t0))s undecided=$(echo "$out" | grep -c '^UNDECIDED') viol=$(echo "$out" | grep -c '^VIOLATION')"
  echo "$out" | grep '^UNDECIDED\|^VIOLATION' | cut -c1-220
done
