package pruning

// Bounded stand-in for C18 (NOT a proof): the contract on GeneratePartitionPaths states coverage on the hour cursor;
// the path TEXT (time formatting, the day-level paths of daily compacted files) is abstract there. Here the real
// function is run for every range [Start, End) with Start and End on a 30-minute grid over three days around a
// month boundary (2024-02-28 .. 2024-03-02, 10,440 ranges; thorough: 15-minute grid), and for every instant t of a
// 15-minute grid with Start <= t < End both the hour directory of t (.../YYYY/MM/DD/HH/*.parquet) and the day
// directory of t (.../YYYY/MM/DD/*.parquet, where daily compacted files live) must be among the generated paths.
// (t = End exactly is left out: the hour that starts at an hour-aligned End is an open known finding.)

import (
	"context"
	"os"
	"path/filepath"
	"testing"
	"time"

	"github.com/rs/zerolog"
)

func TestVerifBoundedEveryCoveredInstantHasItsPaths(t *testing.T) {
	step := 30 * time.Minute
	if os.Getenv("VERIF_TIER") == "thorough" {
		step = 15 * time.Minute
	}
	p := NewPartitionPruner(zerolog.Nop())
	base := time.Date(2024, 2, 28, 0, 0, 0, 0, time.UTC)
	span := 72 * time.Hour
	n := 0
	for s := time.Duration(0); s < span; s += step {
		for e := s + step; e <= span; e += step {
			n++
			start, end := base.Add(s), base.Add(e)
			got := map[string]bool{}
			for _, pth := range p.GeneratePartitionPaths(context.Background(), "/base", "db", "m", &TimeRange{Start: start, End: end}) {
				got[pth] = true
			}
			if len(got) == 0 {
				continue // no pruning: every file is read
			}
			for ti := start; ti.Before(end); ti = ti.Add(15 * time.Minute) {
				hourPath := filepath.Join("/base", "db", "m", ti.Format("2006"), ti.Format("01"), ti.Format("02"), ti.Format("15"), "*.parquet")
				dayPath := filepath.Join("/base", "db", "m", ti.Format("2006"), ti.Format("01"), ti.Format("02"), "*.parquet")
				if !got[hourPath] {
					t.Fatalf("range %s .. %s: a row at %s lives under %s, which is not among the %d generated paths", start.Format(time.RFC3339), end.Format(time.RFC3339), ti.Format(time.RFC3339), hourPath, len(got))
				}
				if !got[dayPath] {
					t.Fatalf("range %s .. %s: a row at %s may live in the daily compacted file under %s, which is not among the %d generated paths", start.Format(time.RFC3339), end.Format(time.RFC3339), ti.Format(time.RFC3339), dayPath, len(got))
				}
			}
		}
	}
	t.Logf("%d ranges", n)
}
