package pruning

// Bounded stand-in for C18 (NOT a proof): the time range ExtractTimeRange reads out of a statement restricts the files
// that are read, so it must contain the time of EVERY row the statement's predicate selects - whatever the boolean
// structure around the time comparisons. The contract on ExtractTimeRange treats regular-expression matches as
// arbitrary, so which text a match came from (an OR arm, a NOT, a comment, a subquery, a column whose name merely
// ends in "time") is decided here, against a reference evaluation of the predicate.
//
// Universe: every predicate tree of depth <= 3 (thorough: the same trees in more renderings) over the atoms
//   time >= 'A'   time > 'A'   time < 'B'   time <= 'B'   time BETWEEN 'A' AND 'B'   host = 'b'
//   event_time >= 'B'   uptime < 'A'   ts IN (SELECT ts FROM m WHERE time >= 'B')
// combined with AND, OR, NOT and parentheses, printed with minimal and with full parenthesisation, optionally
// decorated with a commented-out bound (`-- AND time >= 'B'`, `/* time < 'A' AND */`), alone, followed by
// ORDER BY/LIMIT, and as the first arm of a UNION ALL. Rows: time in {A-90m, A, A+30m, B-30m, B, B+90m}, host in
// {a, b}, event_time/uptime in {A-90m, B+90m}, subquery membership in {yes, no}. (Rows before 2020 or in the future
// are left out: the one-sided bounds are separate, open findings.) For every statement for which a range is returned,
// every row satisfying the predicate must have Start <= time <= End.

import (
	"fmt"
	"os"
	"testing"
	"time"

	"github.com/rs/zerolog"
)

type verifRow struct {
	t, ev, up time.Time
	host      string
	inSub     bool
}

type verifPred struct {
	op   string // atom, and, or, not
	l, r *verifPred
	text string
	eval func(verifRow) bool
}

const (
	verifA = "2024-03-15 10:00:00"
	verifB = "2024-03-16 10:00:00"
)

func (p *verifPred) holds(r verifRow) bool {
	switch p.op {
	case "and":
		return p.l.holds(r) && p.r.holds(r)
	case "or":
		return p.l.holds(r) || p.r.holds(r)
	case "not":
		return !p.l.holds(r)
	}
	return p.eval(r)
}

// render prints the tree; full=true parenthesises every compound operand, full=false only where precedence
// (NOT > AND > OR) requires it.
func (p *verifPred) render(full bool) string {
	wrap := func(c *verifPred, need bool) string {
		if c.op == "atom" {
			return c.render(full)
		}
		if full || need {
			return "(" + c.render(full) + ")"
		}
		return c.render(full)
	}
	switch p.op {
	case "and":
		return wrap(p.l, p.l.op == "or") + " AND " + wrap(p.r, p.r.op == "or")
	case "or":
		return wrap(p.l, false) + " OR " + wrap(p.r, false)
	case "not":
		return "NOT " + wrap(p.l, p.l.op != "atom")
	}
	return p.text
}

func TestVerifBoundedRangeCoversEverySelectedRow(t *testing.T) {
	thorough := os.Getenv("VERIF_TIER") == "thorough"
	tA, _ := time.Parse("2006-01-02 15:04:05", verifA)
	tB, _ := time.Parse("2006-01-02 15:04:05", verifB)
	atoms := []*verifPred{
		{op: "atom", text: "time >= '" + verifA + "'", eval: func(r verifRow) bool { return !r.t.Before(tA) }},
		{op: "atom", text: "time > '" + verifA + "'", eval: func(r verifRow) bool { return r.t.After(tA) }},
		{op: "atom", text: "time < '" + verifB + "'", eval: func(r verifRow) bool { return r.t.Before(tB) }},
		{op: "atom", text: "time <= '" + verifB + "'", eval: func(r verifRow) bool { return !r.t.After(tB) }},
		{op: "atom", text: "time BETWEEN '" + verifA + "' AND '" + verifB + "'", eval: func(r verifRow) bool { return !r.t.Before(tA) && !r.t.After(tB) }},
		{op: "atom", text: "host = 'b'", eval: func(r verifRow) bool { return r.host == "b" }},
		{op: "atom", text: "event_time >= '" + verifB + "'", eval: func(r verifRow) bool { return !r.ev.Before(tB) }},
		{op: "atom", text: "uptime < '" + verifA + "'", eval: func(r verifRow) bool { return r.up.Before(tA) }},
		{op: "atom", text: "ts IN (SELECT ts FROM m WHERE time >= '" + verifB + "')", eval: func(r verifRow) bool { return r.inSub }},
	}
	var rows []verifRow
	for _, tt := range []time.Time{tA.Add(-90 * time.Minute), tA, tA.Add(30 * time.Minute), tB.Add(-30 * time.Minute), tB, tB.Add(90 * time.Minute)} {
		for _, h := range []string{"a", "b"} {
			for _, ev := range []time.Time{tA.Add(-90 * time.Minute), tB.Add(90 * time.Minute)} {
				for _, up := range []time.Time{tA.Add(-90 * time.Minute), tB.Add(90 * time.Minute)} {
					for _, in := range []bool{false, true} {
						rows = append(rows, verifRow{t: tt, ev: ev, up: up, host: h, inSub: in})
					}
				}
			}
		}
	}
	// trees of depth <= 3: level[k] = trees of depth exactly k
	level1 := atoms
	var level2 []*verifPred
	for _, a := range level1 {
		level2 = append(level2, &verifPred{op: "not", l: a})
		for _, b := range level1 {
			level2 = append(level2, &verifPred{op: "and", l: a, r: b}, &verifPred{op: "or", l: a, r: b})
		}
	}
	var level3 []*verifPred
	for _, c := range level2 {
		level3 = append(level3, &verifPred{op: "not", l: c})
		for _, a := range level1 {
			level3 = append(level3, &verifPred{op: "and", l: c, r: a}, &verifPred{op: "or", l: c, r: a},
				&verifPred{op: "and", l: a, r: c}, &verifPred{op: "or", l: a, r: c})
		}
	}
	all := append(append(append([]*verifPred{}, level1...), level2...), level3...)

	p := NewPartitionPruner(zerolog.Nop())
	n, ranged := 0, 0
	check := func(q string, sel func(verifRow) bool) {
		n++
		tr := p.ExtractTimeRange(q)
		if tr == nil {
			return
		}
		ranged++
		for _, r := range rows {
			if sel(r) && (r.t.Before(tr.Start) || r.t.After(tr.End)) {
				t.Fatalf("%q selects a row with time=%s host=%s event_time=%s uptime=%s in-subquery=%v, but the range used for pruning is %s .. %s: the file holding that row is not read",
					q, r.t.Format(time.RFC3339), r.host, r.ev.Format(time.RFC3339), r.up.Format(time.RFC3339), r.inSub, tr.Start.Format(time.RFC3339), tr.End.Format(time.RFC3339))
			}
		}
	}
	other := atoms[5] // host = 'b'
	for i, e := range all {
		for _, full := range []bool{false, true} {
			w := e.render(full)
			check("SELECT * FROM cpu WHERE "+w, e.holds)
			if !thorough && i%7 != 0 {
				continue
			}
			check("SELECT * FROM cpu WHERE "+w+" ORDER BY time LIMIT 5", e.holds)
			check("SELECT * FROM cpu WHERE "+w+" -- AND time >= '"+verifB+"'", e.holds)
			check("SELECT * FROM cpu WHERE "+w+" -- AND time >= '"+verifB+"'\nORDER BY time", e.holds)
			check("SELECT * FROM cpu WHERE /* time < '"+verifA+"' AND */ "+w, e.holds)
			check("SELECT * FROM cpu WHERE "+w+" UNION ALL SELECT * FROM cpu WHERE "+other.text,
				func(r verifRow) bool { return e.holds(r) || other.holds(r) })
			check("SELECT * FROM cpu WHERE "+other.text+" UNION ALL SELECT * FROM cpu WHERE "+w,
				func(r verifRow) bool { return e.holds(r) || other.holds(r) })
		}
	}
	if ranged == 0 {
		t.Fatalf("no statement of the universe was given a range: the check is vacuous")
	}
	t.Logf("%s", fmt.Sprintf("%d statements, %d with a range, %d rows each", n, ranged, len(rows)))
}
