package tiering

// Bounded stand-in for C12 (NOT a proof): copyFileStreaming runs two goroutines over an io.Pipe, which is outside
// the contract engine's subset, so its contract ("returns nil only after the target backend holds the complete
// file") is TRUSTED by MigrateFile's proof. This test runs the real function exhaustively over a small universe
// instead and fails if it ever reports success while the target does not hold exactly the source's bytes:
//   file sizes {0, 1, 2, 4096, 70001}
//   x target pre-state {absent, truncated copy, same length but different bytes, complete copy}
//   x source fault {none, fails at once, fails half way}
//   x target fault {none, fails at once, fails half way leaving the partial object}

import (
	"bytes"
	"context"
	"errors"
	"fmt"
	"io"
	"os"
	"sync"
	"testing"

	"github.com/rs/zerolog"
)

type verifMemBackend struct {
	mu        sync.Mutex
	files     map[string][]byte
	readFail  int // -1 none, else fail after this many bytes
	writeFail int // -1 none, else fail after consuming this many bytes (partial object left behind)
}

func (b *verifMemBackend) Type() string       { return "mem" }
func (b *verifMemBackend) ConfigJSON() string { return "{}" }
func (b *verifMemBackend) Close() error       { return nil }
func (b *verifMemBackend) Exists(_ context.Context, path string) (bool, error) {
	b.mu.Lock()
	defer b.mu.Unlock()
	_, ok := b.files[path]
	return ok, nil
}
func (b *verifMemBackend) Delete(_ context.Context, path string) error {
	b.mu.Lock()
	defer b.mu.Unlock()
	delete(b.files, path)
	return nil
}
func (b *verifMemBackend) Read(_ context.Context, path string) ([]byte, error) {
	b.mu.Lock()
	defer b.mu.Unlock()
	d, ok := b.files[path]
	if !ok {
		return nil, os.ErrNotExist
	}
	return append([]byte(nil), d...), nil
}
func (b *verifMemBackend) Write(_ context.Context, path string, data []byte) error {
	b.mu.Lock()
	defer b.mu.Unlock()
	b.files[path] = append([]byte(nil), data...)
	return nil
}
func (b *verifMemBackend) List(_ context.Context, prefix string) ([]string, error) { return nil, nil }
func (b *verifMemBackend) ReadTo(_ context.Context, path string, w io.Writer) error {
	b.mu.Lock()
	d, ok := b.files[path]
	d = append([]byte(nil), d...)
	b.mu.Unlock()
	if !ok {
		return os.ErrNotExist
	}
	if b.readFail >= 0 {
		n := b.readFail
		if n > len(d) {
			n = len(d)
		}
		if _, err := w.Write(d[:n]); err != nil {
			return err
		}
		return errors.New("source read failed")
	}
	_, err := w.Write(d)
	return err
}
func (b *verifMemBackend) WriteReader(_ context.Context, path string, r io.Reader, size int64) error {
	if b.writeFail >= 0 {
		part, _ := io.ReadAll(io.LimitReader(r, int64(b.writeFail)))
		b.mu.Lock()
		b.files[path] = part
		b.mu.Unlock()
		return errors.New("target write failed")
	}
	data, err := io.ReadAll(r)
	if err != nil {
		return err
	}
	if int64(len(data)) != size {
		return fmt.Errorf("short upload: %d of %d bytes", len(data), size)
	}
	b.mu.Lock()
	b.files[path] = data
	b.mu.Unlock()
	return nil
}

func TestVerifBoundedCopyFileStreaming(t *testing.T) {
	m := &Migrator{logger: zerolog.Nop()}
	const path = "db/m/2024/01/01/00/f.parquet"
	cases := 0
	for _, size := range []int{0, 1, 2, 4096, 70001} {
		content := make([]byte, size)
		for i := range content {
			content[i] = byte(i*7 + 3)
		}
		for pre := 0; pre < 4; pre++ {
			for _, rf := range []int{-1, 0, size / 2} {
				for _, wf := range []int{-1, 0, size / 2} {
					src := &verifMemBackend{files: map[string][]byte{path: content}, readFail: rf, writeFail: -1}
					dst := &verifMemBackend{files: map[string][]byte{}, readFail: -1, writeFail: wf}
					switch pre {
					case 1:
						dst.files[path] = append([]byte(nil), content[:size/2]...)
					case 2:
						other := bytes.Repeat([]byte{0xEE}, size)
						dst.files[path] = other
					case 3:
						dst.files[path] = append([]byte(nil), content...)
					}
					err := m.copyFileStreaming(context.Background(), src, dst, path, int64(size))
					cases++
					if !bytes.Equal(src.files[path], content) {
						t.Fatalf("size=%d pre=%d readFail=%d writeFail=%d: the source object was modified", size, pre, rf, wf)
					}
					if err == nil && !bytes.Equal(dst.files[path], content) {
						t.Fatalf("size=%d pre=%d readFail=%d writeFail=%d: copyFileStreaming reported success but the target holds %d bytes that are not the source's %d bytes", size, pre, rf, wf, len(dst.files[path]), size)
					}
				}
			}
		}
	}
	t.Logf("VERIF-BOUNDED cases=%d", cases)
}
