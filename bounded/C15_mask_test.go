package sql

// Bounded stand-in for C15 (NOT a proof): "masking followed by unmasking returns the original text" is a statement
// about whole strings built with a strings.Builder, fmt.Sprintf and strings.Replace, outside the contract engine's
// reach (its contracts cover the quote scanners). The real MaskStringLiterals / UnmaskStringLiterals are therefore
// run exhaustively over
//   all sequences of 0..5 (quick) / 0..6 (thorough) tokens from
//   { ' , " , \ , $ , $$ , $t$ , E , a , _ , 1 , space , -- , newline , "a" , "A" , 'x' }
// and the round trip is compared with the input. Texts that themselves contain a placeholder look-alike
// (__STR_n__ / __IDENT_n__) are NOT in this universe: they are the open known finding
// mask-placeholder-lookalike (demonstrated separately).

import (
	"os"
	"testing"
)

func TestVerifBoundedMaskRoundTrip(t *testing.T) {
	tokens := []string{"'", "\"", "\\", "$", "$$", "$t$", "E", "a", "_", "1", " ", "--", "\n", "\"a\"", "\"A\"", "'x'"}
	maxLen := 5
	if os.Getenv("VERIF_TIER") == "thorough" {
		maxLen = 6
	}
	cases := 0
	var rec func(prefix string, n int)
	rec = func(prefix string, n int) {
		cases++
		masked, masks := MaskStringLiterals(prefix, HasQuotes(prefix))
		if back := UnmaskStringLiterals(masked, masks); back != prefix {
			t.Fatalf("UnmaskStringLiterals(MaskStringLiterals(%q)) = %q (masked form %q)", prefix, back, masked)
		}
		if n == maxLen {
			return
		}
		for _, tok := range tokens {
			rec(prefix+tok, n+1)
		}
	}
	rec("", 0)
	t.Logf("VERIF-BOUNDED cases=%d", cases)
}
