package cluster

// Bounded stand-in for C24 (NOT a proof): "the reader applies every entry the writer queued" includes WHAT it applies -
// for a row-format entry the reader has to store the rows the writer stored. Universe: one two-row write per subset of
// the user column names {measurement, m, database} (names the reader-side handler once treated as routing metadata)
// x database in {prod, default}: 16 writes through the real ArrowBuffer + WAL writer, the replication-hook payload
// handed verbatim to the real Coordinator.buildReplicationIngestHandler, both sides flushed to Parquet and read back
// with DuckDB; the stored rows (all columns, all values) must be equal.

import (
	"context"
	"database/sql"
	"fmt"
	"path/filepath"
	"sort"
	"strings"
	"sync"
	"testing"
	"time"

	"github.com/basekick-labs/arc/internal/config"
	"github.com/basekick-labs/arc/internal/ingest"
	"github.com/basekick-labs/arc/internal/storage"
	"github.com/basekick-labs/arc/internal/wal"
	"github.com/basekick-labs/arc/pkg/models"
	_ "github.com/duckdb/duckdb-go/v2"
	"github.com/rs/zerolog"
)

func verifBoundedStoredRows(t *testing.T, root, database string) string {
	db, err := sql.Open("duckdb", "")
	if err != nil {
		t.Fatal(err)
	}
	defer db.Close()
	glob := filepath.Join(root, database, "cpu", "**", "*.parquet")
	rows, err := db.Query(fmt.Sprintf("SELECT * FROM read_parquet('%s', union_by_name=true)", glob))
	if err != nil {
		return "no rows: " + err.Error()
	}
	defer rows.Close()
	cols, _ := rows.Columns()
	var out []string
	for rows.Next() {
		vals := make([]interface{}, len(cols))
		ptrs := make([]interface{}, len(cols))
		for i := range vals {
			ptrs[i] = &vals[i]
		}
		if err := rows.Scan(ptrs...); err != nil {
			t.Fatal(err)
		}
		var kv []string
		for i, c := range cols {
			v := vals[i]
			if tm, ok := v.(time.Time); ok {
				v = tm.UTC().Format(time.RFC3339Nano)
			}
			kv = append(kv, fmt.Sprintf("%s=%v", c, v))
		}
		sort.Strings(kv)
		out = append(out, strings.Join(kv, " "))
	}
	sort.Strings(out)
	return strings.Join(out, "\n")
}

func TestVerifBoundedReaderStoresWhatTheWriterStored(t *testing.T) {
	cfg := func() *config.IngestConfig {
		return &config.IngestConfig{MaxBufferSize: 1000000, MaxBufferAgeMS: 600000, FlushWorkers: 2, FlushQueueSize: 10, ShardCount: 4, Compression: "snappy"}
	}
	ctx := context.Background()
	names := []string{"measurement", "m", "database"}
	n := 0
	for mask := 0; mask < 8; mask++ {
		for _, database := range []string{"prod", "default"} {
			n++
			walDir, writerDir, readerDir := t.TempDir(), t.TempDir(), t.TempDir()
			w, err := wal.NewWriter(&wal.WriterConfig{WALDir: walDir, SyncMode: wal.SyncModeFsync, Logger: zerolog.Nop()})
			if err != nil {
				t.Fatal(err)
			}
			var mu sync.Mutex
			var streamed [][]byte
			w.SetReplicationHook(func(e *wal.ReplicationEntry) {
				mu.Lock()
				streamed = append(streamed, append([]byte(nil), e.Payload...))
				mu.Unlock()
			})
			writerStorage, _ := storage.NewLocalBackend(writerDir, zerolog.Nop())
			writerBuf := ingest.NewArrowBuffer(cfg(), writerStorage, zerolog.Nop())
			writerBuf.SetWAL(w)
			cols := map[string][]interface{}{
				"time": {int64(1700000000000000), int64(1700000001000000)},
				"host": {"a", "b"},
				"v":    {int64(1), int64(2)},
			}
			for i, nm := range names {
				if mask&(1<<i) != 0 {
					cols[nm] = []interface{}{"user-" + nm + "-1", "user-" + nm + "-2"}
				}
			}
			rec := &models.ColumnarRecord{Measurement: "cpu", Columnar: true, Columns: cols, TagColumns: []string{"host"}}
			if err := writerBuf.WriteColumnarRecord(ctx, database, rec); err != nil {
				t.Fatal(err)
			}
			deadline := time.Now().Add(10 * time.Second)
			for {
				mu.Lock()
				k := len(streamed)
				mu.Unlock()
				if k >= 1 {
					break
				}
				if time.Now().After(deadline) {
					t.Fatal("the replication hook was not called")
				}
				time.Sleep(5 * time.Millisecond)
			}
			if err := writerBuf.Close(); err != nil {
				t.Fatal(err)
			}
			_ = w.Close()

			readerStorage, _ := storage.NewLocalBackend(readerDir, zerolog.Nop())
			readerBuf := ingest.NewArrowBuffer(cfg(), readerStorage, zerolog.Nop())
			c := &Coordinator{ingestBuffer: readerBuf, logger: zerolog.Nop()}
			h := c.buildReplicationIngestHandler()
			mu.Lock()
			payloads := streamed
			mu.Unlock()
			for _, p := range payloads {
				if err := h.ApplyReplicatedEntry(ctx, p); err != nil {
					t.Fatal(err)
				}
			}
			if err := readerBuf.Close(); err != nil {
				t.Fatal(err)
			}
			onWriter, onReader := verifBoundedStoredRows(t, writerDir, database), verifBoundedStoredRows(t, readerDir, database)
			if strings.HasPrefix(onWriter, "no rows") {
				t.Fatalf("the writer stored nothing: %s", onWriter)
			}
			if onWriter != onReader {
				t.Fatalf("database %s: the writer stored\n%s\nthe reader stored for the same replicated entry\n%s", database, onWriter, onReader)
			}
		}
	}
	t.Logf("%d replicated writes compared", n)
}
