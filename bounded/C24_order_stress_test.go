package replication

// Demonstration for C24 (`replication-sequence-and-enqueue-not-atomic`): Sender.Replicate assigns the stream
// sequence number (s.sequence.Add(1)) and sends the entry to the distribution channel in two separate steps, and
// the WAL calls the replication hook from every appending goroutine concurrently (outside its own lock). Two
// concurrent writes can therefore take sequence numbers n and n+1 and enter the channel in the order n+1, n. The
// distribution loop streams the channel in order; the receiver requires strictly increasing sequence numbers and
// tears the connection down on the first entry that goes backwards - "the writer's own concurrency" breaking a
// healthy stream, which the property excludes for every interleaving.
// The demonstration drives the real Replicate from 16 goroutines and reads the real channel: it fails as soon as
// two consecutive entries in the channel are out of order (schedule-dependent: with 16 x 20000 calls on this
// machine an inversion has been observed on every run; a pass therefore does NOT show the defect is gone).

import (
	"sync"
	"testing"

	"github.com/rs/zerolog"
)

func TestVerifDemoSequenceOrderEqualsQueueOrder(t *testing.T) {
	const workers, perWorker = 16, 20000
	s := NewSender(&SenderConfig{BufferSize: workers*perWorker + 16, Logger: zerolog.Nop()})
	s.running.Store(true)
	var wg sync.WaitGroup
	start := make(chan struct{})
	for w := 0; w < workers; w++ {
		wg.Add(1)
		go func() {
			defer wg.Done()
			<-start
			for i := 0; i < perWorker; i++ {
				s.Replicate(&ReplicateEntry{Payload: []byte{1}})
			}
		}()
	}
	close(start)
	wg.Wait()
	close(s.entryChan)
	var last uint64
	n, inversions := 0, 0
	var firstAt int
	var firstPrev, firstCur uint64
	for e := range s.entryChan {
		n++
		if e.Sequence <= last {
			if inversions == 0 {
				firstAt, firstPrev, firstCur = n, last, e.Sequence
			}
			inversions++
		}
		last = e.Sequence
	}
	if n != workers*perWorker {
		t.Fatalf("queued %d of %d entries", n, workers*perWorker)
	}
	if inversions > 0 {
		t.Fatalf("%d of %d consecutive pairs in the distribution channel go backwards (first: entry %d has sequence %d after %d): the receiver would drop the connection at the first one", inversions, n, firstAt, firstCur, firstPrev)
	}
}
