package main

// Bounded stand-in for C07 (NOT a proof): one acknowledged write whose rows span three hours, flushed while the
// n-th storage write fails (n = 1..3: before any hour file exists, after one, after two), then one maintenance tick
// on its flush-failure branch (real WAL recovery with main.go's callbacks) and a second flush with storage working.
// Every row must then be stored exactly once. Real ArrowBuffer, WAL writer and recovery; the storage double fails
// exactly one Write.

import (
	"context"
	"database/sql"
	"errors"
	"fmt"
	"path/filepath"
	"sync"
	"testing"
	"time"

	"github.com/basekick-labs/arc/internal/config"
	"github.com/basekick-labs/arc/internal/ingest"
	"github.com/basekick-labs/arc/internal/storage"
	"github.com/basekick-labs/arc/internal/wal"
	"github.com/basekick-labs/arc/pkg/models"
	_ "github.com/duckdb/duckdb-go/v2"
	"github.com/rs/zerolog"
)

// verifFailNthWrite fails the n-th Write (1-based) and no other.
type verifFailNthWrite struct {
	storage.Backend
	mu   sync.Mutex
	n    int
	seen int
}

func (o *verifFailNthWrite) Write(ctx context.Context, path string, data []byte) error {
	o.mu.Lock()
	o.seen++
	fail := o.seen == o.n
	o.mu.Unlock()
	if fail {
		return errors.New("transient storage error")
	}
	return o.Backend.Write(ctx, path, data)
}

func TestVerifBoundedFailedMultiHourFlushStoresNothingTwice(t *testing.T) {
	for n := 1; n <= 3; n++ {
		verifBoundedMultiHourCase(t, n)
	}
}

func verifBoundedMultiHourCase(t *testing.T, failNth int) {
	ctx := context.Background()
	walDir, dataDir := t.TempDir(), t.TempDir()
	w, err := wal.NewWriter(&wal.WriterConfig{WALDir: walDir, SyncMode: wal.SyncModeFsync, MaxSizeBytes: 1, Logger: zerolog.Nop()})
	if err != nil {
		t.Fatal(err)
	}
	local, _ := storage.NewLocalBackend(dataDir, zerolog.Nop())
	store := &verifFailNthWrite{Backend: local, n: failNth}
	cfg := &config.IngestConfig{MaxBufferSize: 1000000, MaxBufferAgeMS: 600000, FlushWorkers: 2, FlushQueueSize: 10, ShardCount: 4, Compression: "snappy"}
	buf := ingest.NewArrowBuffer(cfg, store, zerolog.Nop())
	buf.SetWAL(w)
	defer buf.Close()

	// one acknowledged write of three rows in three different hours
	h := int64(3600 * 1000000)
	t0 := int64(1700000000000000)
	if err := buf.WriteColumnarRecord(ctx, "db", &models.ColumnarRecord{Measurement: "cpu", Columnar: true,
		Columns:    map[string][]interface{}{"time": {t0, t0 + h, t0 + 2*h}, "host": {"h1", "h2", "h3"}, "v": {int64(1), int64(2), int64(3)}},
		TagColumns: []string{"host"}}); err != nil {
		t.Fatal(err)
	}
	deadline := time.Now().Add(10 * time.Second)
	for w.Stats()["total_entries"].(int64) < 1 {
		if time.Now().After(deadline) {
			t.Fatal("WAL writer did not persist the entry")
		}
		time.Sleep(5 * time.Millisecond)
	}
	_ = buf.FlushAll(ctx) // the second hour's write fails
	if !buf.HasFlushFailure() {
		t.Fatalf("storage write %d failed, but no flush failure was recorded", failNth)
	}
	time.Sleep(100 * time.Millisecond)
	// ---- one maintenance tick, flush-failure branch: replay what the WAL holds ----
	if _, err := wal.NewRecovery(walDir, zerolog.Nop()).RecoverWithOptions(ctx, createWALRecoveryCallback(buf, zerolog.Nop()),
		&wal.RecoveryOptions{SkipActiveFile: w.CurrentFile(), BatchSize: 10000, ColumnarCallback: createColumnarRecoveryCallback(buf, zerolog.Nop())}); err != nil {
		t.Fatal(err)
	}
	buf.ResetFlushFailure()
	if err := buf.FlushAll(ctx); err != nil {
		t.Fatal(err)
	}
	db, err := sql.Open("duckdb", "")
	if err != nil {
		t.Fatal(err)
	}
	defer db.Close()
	rows, err := db.Query(fmt.Sprintf("SELECT host, count(*) FROM read_parquet('%s', union_by_name=true) GROUP BY host ORDER BY host", filepath.Join(dataDir, "db", "cpu", "**", "*.parquet")))
	if err != nil {
		t.Fatal(err)
	}
	defer rows.Close()
	got := ""
	for rows.Next() {
		var host string
		var n int
		if err := rows.Scan(&host, &n); err != nil {
			t.Fatal(err)
		}
		got += fmt.Sprintf("%s x%d ", host, n)
	}
	if got != "h1 x1 h2 x1 h3 x1 " {
		t.Fatalf("one acknowledged write of h1, h2, h3; storage write %d of the flush failed; after the WAL replay the measurement holds: %s", failNth, got)
	}
}
