package api

// Bounded stand-in for C15 (NOT a proof): the normalisation applied before permission checking, before the
// cross-database scan and before the rewrite must delimit the comments and quoted constructs DuckDB itself sees. A
// comment may contain quote characters (`-- it's`, `/* "x */`) and a quoted construct may contain comment markers
// (`'a--b'`, `"a/*b"`); whichever comes first decides. The statement
//
//	SELECT * FROM cpu <s> \nJOIN sec.t ON 1=1
//
// is built for every concatenation <s> of up to 5 (thorough: 6) tokens of { " , ' , -- , /* , */ , newline , space ,
// x }. A reference lexer (DuckDB's rules for these constructs: '...' with '' escape, "..." with "" escape, -- to the
// end of the line, /* ... */, comments only outside quotes and quotes only outside comments) decides whether every
// construct opened inside <s> is closed again when the JOIN is reached. If so the JOIN is live SQL, and
//   - hasCrossDatabaseSyntax must see the db.table reference,
//   - checkQueryPermissions must ask the RBAC checker about (sec, t),
//   - convertSQLToStoragePaths must rewrite the reference into a read_parquet over sec/t and keep the ON clause
//     (nothing outside a comment may be removed).

import (
	"context"
	"os"
	"strings"
	"testing"

	"github.com/basekick-labs/arc/internal/auth"
	"github.com/basekick-labs/arc/internal/pruning"
	"github.com/gofiber/fiber/v2"
	"github.com/rs/zerolog"
	"github.com/valyala/fasthttp"
)

type verifRecordingRBAC struct{ asked map[string]bool }

func (r *verifRecordingRBAC) IsRBACEnabled() bool { return true }
func (r *verifRecordingRBAC) CheckPermission(req *auth.PermissionCheckRequest) *auth.PermissionCheckResult {
	r.asked[req.Database+"."+req.Measurement] = true
	return &auth.PermissionCheckResult{Allowed: true, Source: "rbac"}
}
func (r *verifRecordingRBAC) CheckPermissionsBatch(reqs []*auth.PermissionCheckRequest) []*auth.PermissionCheckResult {
	out := make([]*auth.PermissionCheckResult, len(reqs))
	for i, q := range reqs {
		out[i] = r.CheckPermission(q)
	}
	return out
}

// verifClosedAtEnd: starting in plain SQL, does s (followed by a newline) end in plain SQL again?
func verifClosedAtEnd(s string) bool {
	s += "\n"
	i := 0
	for i < len(s) {
		switch {
		case s[i] == '\'' || s[i] == '"':
			q := s[i]
			j := i + 1
			for {
				if j >= len(s) {
					return false
				}
				if s[j] == q {
					if j+1 < len(s) && s[j+1] == q {
						j += 2
						continue
					}
					break
				}
				j++
			}
			i = j + 1
		case strings.HasPrefix(s[i:], "--"):
			j := strings.IndexByte(s[i:], '\n')
			if j < 0 {
				return false
			}
			i += j + 1
		case strings.HasPrefix(s[i:], "/*"):
			j := strings.Index(s[i+2:], "*/")
			if j < 0 {
				return false
			}
			i += 2 + j + 2
		default:
			i++
		}
	}
	return true
}

func TestVerifBoundedNormalisationKeepsLiveText(t *testing.T) {
	maxTok := 5
	if os.Getenv("VERIF_TIER") == "thorough" {
		maxTok = 6
	}
	rb := &verifRecordingRBAC{}
	h := &QueryHandler{
		storage:     &mockLocalBackend{basePath: "./data"},
		pruner:      pruning.NewPartitionPruner(zerolog.Nop()),
		logger:      zerolog.Nop(),
		rbacManager: rb,
	}
	app := fiber.New()
	c := app.AcquireCtx(&fasthttp.RequestCtx{})
	defer app.ReleaseCtx(c)
	c.Locals("token_info", &auth.TokenInfo{ID: 1, Name: "verif"})

	toks := []string{`"`, `'`, "--", "/*", "*/", "\n", " ", "x"}
	n, live := 0, 0
	var rec func(s string, depth int)
	rec = func(s string, depth int) {
		n++
		if verifClosedAtEnd(s) {
			live++
			q := "SELECT * FROM cpu " + s + "\nJOIN sec.t ON 1=1"
			if !hasCrossDatabaseSyntax(q) {
				t.Fatalf("%q: JOIN sec.t is live SQL for DuckDB's lexer, but hasCrossDatabaseSyntax does not see the db.table reference", q)
			}
			rb.asked = map[string]bool{}
			if err := h.checkQueryPermissions(c, q, "read"); err != nil {
				t.Fatalf("%q: %v", q, err)
			}
			if !rb.asked["sec.t"] {
				t.Fatalf("%q: JOIN sec.t is live SQL for DuckDB's lexer, but the permission check only asked about %v", q, rb.asked)
			}
			out := h.convertSQLToStoragePaths(context.Background(), q)
			if !strings.Contains(out, "/sec/t/") || !strings.Contains(out, "ON 1=1") {
				t.Fatalf("%q: JOIN sec.t ON 1=1 is live SQL for DuckDB's lexer, but the rewritten statement is %q", q, out)
			}
		}
		if depth == maxTok {
			return
		}
		for _, tk := range toks {
			rec(s+tk, depth+1)
		}
	}
	rec("", 0)
	t.Logf("%d texts, %d with the JOIN live", n, live)
}
