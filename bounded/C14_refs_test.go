package api

// Bounded stand-ins for C14 (NOT proofs): two regular-expression-driven decisions the engine treats as opaque.
//
// (1) extractTableReferences: a QUALIFIED reference db.name always yields the permission check (db, name),
//     whatever the measurement is called - names that look like system tables (pg_..., duckdb_...,
//     information_schema, read_parquet...) are skipped only when they are unqualified. Checked for every name built
//     from up to 2 tokens of {pg_, duckdb_, information_schema, read_parquet, cpu, x} in FROM, JOIN, subquery and
//     CTE-body position.
// (2) validateIdentifier accepts exactly the plain identifiers: for every string of length 1..5 over
//     { a, Z, 7, _, -, ., /, \, *, ', " , space } it accepts iff the string starts with a letter or underscore and
//     contains only letters, digits, underscore and hyphen.

import (
	"testing"
)

func TestVerifBoundedQualifiedReferencesAreAlwaysChecked(t *testing.T) {
	toks := []string{"pg_", "duckdb_", "information_schema", "read_parquet", "cpu", "x"}
	var names []string
	for _, a := range toks {
		names = append(names, a)
		for _, b := range toks {
			names = append(names, a+b)
		}
	}
	forms := []string{
		"SELECT * FROM tenant_b.%s",
		"SELECT * FROM tenant_a.cpu a JOIN tenant_b.%s b ON a.time = b.time",
		"SELECT * FROM (SELECT * FROM tenant_b.%s) s",
		"WITH c AS (SELECT * FROM tenant_b.%s) SELECT * FROM c",
	}
	for _, n := range names {
		for _, f := range forms {
			q := sprintf1(f, n)
			found := false
			for _, r := range extractTableReferences(q, nil) {
				if r.Database == "tenant_b" && r.Measurement == n {
					found = true
				}
			}
			if !found {
				t.Fatalf("query %q reads tenant_b.%s, but no permission check for (tenant_b, %s) is extracted: %v", q, n, n, extractTableReferences(q, nil))
			}
		}
	}
}

func sprintf1(f, a string) string {
	out := ""
	for i := 0; i < len(f); i++ {
		if f[i] == '%' && i+1 < len(f) && f[i+1] == 's' {
			out += a
			i++
			continue
		}
		out += string(f[i])
	}
	return out
}

func TestVerifBoundedValidateIdentifier(t *testing.T) {
	alpha := []byte{'a', 'Z', '7', '_', '-', '.', '/', '\\', '*', '\'', '"', ' '}
	ref := func(s string) bool {
		for i := 0; i < len(s); i++ {
			c := s[i]
			letter := (c >= 'a' && c <= 'z') || (c >= 'A' && c <= 'Z') || c == '_'
			if i == 0 && !letter {
				return false
			}
			if !(letter || (c >= '0' && c <= '9') || c == '-') {
				return false
			}
		}
		return len(s) > 0
	}
	buf := make([]byte, 0, 5)
	n := 0
	var rec func()
	rec = func() {
		if len(buf) > 0 {
			n++
			s := string(buf)
			if got := validateIdentifier(s) == nil; got != ref(s) {
				t.Fatalf("validateIdentifier(%q) accepts=%v, a plain identifier=%v", s, got, ref(s))
			}
		}
		if len(buf) == 5 {
			return
		}
		for _, c := range alpha {
			buf = append(buf, c)
			rec()
			buf = buf[:len(buf)-1]
		}
	}
	rec()
	t.Logf("%d strings", n)
}
