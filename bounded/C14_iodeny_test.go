package api

// Bounded stand-in for C14 (NOT a proof): the I/O-function denylist is matched against ioDenylistNormalise(sql).
// Whatever quoting and commenting surrounds it, a call that DuckDB's lexer sees as live SQL must still be visible
// there. Reference lexer (DuckDB's rules for the constructs used): '...' is a string ('' escapes), "..." is an
// identifier ("" escapes), -- starts a comment to the end of the line and /* ... */ a block comment, both only
// OUTSIDE strings and quoted identifiers. Universe: every concatenation of up to 5 (thorough: 6) tokens of
//   { " , ' , -- , /* , */ , newline , space , x , backslash , read_csv( }   (a backslash is an ordinary character in
//   standard strings and identifiers)
// For each text in which the reference lexer finds read_csv( as live SQL (and all quotes/comments closed before
// it), the denylist pattern must match the normalised form.

import (
	"os"
	"strings"
	"testing"
)

// verifLiveCall reports whether needle occurs at a position the reference lexer classifies as plain SQL.
func verifLiveCall(s, needle string) bool {
	i := 0
	for i < len(s) {
		switch {
		case s[i] == '\'':
			j := i + 1
			for {
				if j >= len(s) {
					return false // unterminated string: DuckDB rejects the statement
				}
				if s[j] == '\'' {
					if j+1 < len(s) && s[j+1] == '\'' {
						j += 2
						continue
					}
					break
				}
				j++
			}
			i = j + 1
		case s[i] == '"':
			j := i + 1
			for {
				if j >= len(s) {
					return false
				}
				if s[j] == '"' {
					if j+1 < len(s) && s[j+1] == '"' {
						j += 2
						continue
					}
					break
				}
				j++
			}
			i = j + 1
		case strings.HasPrefix(s[i:], "--"):
			j := strings.IndexByte(s[i:], '\n')
			if j < 0 {
				return false
			}
			i += j + 1
		case strings.HasPrefix(s[i:], "/*"):
			j := strings.Index(s[i+2:], "*/")
			if j < 0 {
				return false
			}
			i += 2 + j + 2
		case strings.HasPrefix(s[i:], needle):
			// a call glued to the closing quote of a literal or identifier ('a'read_csv(...)) is not valid SQL in any
			// position; only calls that start a token after a separator (or the text) are considered
			return i == 0 || s[i-1] == ' ' || s[i-1] == '\n'
		default:
			i++
		}
	}
	return false
}

func TestVerifBoundedIODenylistSeesLiveCalls(t *testing.T) {
	maxTok := 5
	if os.Getenv("VERIF_TIER") == "thorough" {
		maxTok = 6
	}
	toks := []string{`"`, `'`, "--", "/*", "*/", "\n", " ", "x", `\`, "read_csv("}
	n, live := 0, 0
	var rec func(s string, depth int)
	rec = func(s string, depth int) {
		if s != "" {
			n++
			if verifLiveCall(s, "read_csv(") {
				live++
				if !ioTableFunctionPattern.MatchString(ioDenylistNormalise(s)) {
					t.Fatalf("%q: read_csv( is live SQL for DuckDB's lexer, but the form the denylist is matched against is %q", s, ioDenylistNormalise(s))
				}
			}
		}
		if depth == maxTok {
			return
		}
		for _, tk := range toks {
			rec(s+tk, depth+1)
		}
	}
	rec("", 0)
	t.Logf("%d texts, %d with a live call", n, live)
}

// Second part (same universe plus `;`): wherever the reference lexer finds a live `;` that is followed by more live
// text, ValidateSQLRequest must refuse the request (multi-statement), whatever quotes and comments surround it.
func verifLiveSecondStatement(s string) bool {
	i := 0
	seenSemi := false
	for i < len(s) {
		switch {
		case s[i] == '\'' || s[i] == '"':
			q := s[i]
			j := i + 1
			for {
				if j >= len(s) {
					return false
				}
				if s[j] == q {
					if j+1 < len(s) && s[j+1] == q {
						j += 2
						continue
					}
					break
				}
				j++
			}
			if seenSemi {
				return true
			}
			i = j + 1
		case strings.HasPrefix(s[i:], "--"):
			j := strings.IndexByte(s[i:], '\n')
			if j < 0 {
				return false
			}
			i += j + 1
		case strings.HasPrefix(s[i:], "/*"):
			j := strings.Index(s[i+2:], "*/")
			if j < 0 {
				return false
			}
			i += 2 + j + 2
		case s[i] == ';':
			seenSemi = true
			i++
		case s[i] == ' ' || s[i] == '\n':
			i++
		default:
			if seenSemi {
				return true
			}
			i++
		}
	}
	return false
}

func TestVerifBoundedMultiStatementSeen(t *testing.T) {
	maxTok := 5
	if os.Getenv("VERIF_TIER") == "thorough" {
		maxTok = 6
	}
	toks := []string{`"`, `'`, "--", "/*", "*/", "\n", " ", "x", ";"}
	n, live := 0, 0
	var rec func(s string, depth int)
	rec = func(s string, depth int) {
		if s != "" {
			n++
			if verifLiveSecondStatement(s) {
				live++
				if err := ValidateSQLRequest("SELECT 1 " + s); err == nil {
					t.Fatalf("%q: a second statement is live SQL for DuckDB's lexer, but ValidateSQLRequest accepts the request", "SELECT 1 "+s)
				}
			}
		}
		if depth == maxTok {
			return
		}
		for _, tk := range toks {
			rec(s+tk, depth+1)
		}
	}
	rec("", 0)
	t.Logf("%d texts, %d with a live second statement", n, live)
}
