package ingest

// Bounded stand-in for C01 (NOT a proof): unescape has no functional contract (the encoder-spec contract of
// DESIGN.md A.2 was not built). The real function is compared with a reference written from the line-protocol
// rule it documents: a backslash followed by one of  , space = " \  stands for that byte; any other backslash
// (before an ordinary byte, or as the last byte) is literal and stays.
// Universe: all byte strings of length 0..8 (thorough: 0..9) over { \ , ',' , ' ' , '=' , '"' , a , d }.

import (
	"os"
	"testing"
)

func verifRefUnescape(data []byte) string {
	out := make([]byte, 0, len(data))
	for i := 0; i < len(data); i++ {
		if data[i] == '\\' && i+1 < len(data) {
			switch data[i+1] {
			case ',', ' ', '=', '"', '\\':
				out = append(out, data[i+1])
				i++
				continue
			}
		}
		out = append(out, data[i])
	}
	return string(out)
}

func TestVerifBoundedUnescape(t *testing.T) {
	maxLen := 8
	if os.Getenv("VERIF_TIER") == "thorough" {
		maxLen = 9
	}
	alpha := []byte{'\\', ',', ' ', '=', '"', 'a', 'd'}
	p := NewLineProtocolParser()
	buf := make([]byte, 0, maxLen)
	n := 0
	var rec func()
	rec = func() {
		n++
		in := append([]byte(nil), buf...)
		if got, want := p.unescape(in), verifRefUnescape(buf); got != want {
			t.Fatalf("unescape(%q) = %q, the line-protocol rule gives %q", buf, got, want)
		}
		if len(buf) == maxLen {
			return
		}
		for _, c := range alpha {
			buf = append(buf, c)
			rec()
			buf = buf[:len(buf)-1]
		}
	}
	rec()
	t.Logf("%d inputs", n)
}
