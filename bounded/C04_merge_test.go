package ingest

// Bounded stand-in for C04 (NOT a proof): mergeBatches is outside the reach of the contract engine (its safety
// rests on a running sum of batch lengths and on maps of interface-typed columns), so the real function is run
// exhaustively over a small universe instead:
//   2 or 3 batches (quick) / up to 4 (thorough); each batch has a time column of 0..2 rows and any subset of the
//   columns {"v", "_x", ""}, each of type int64 / float64 / string / bool, as *TypedColumnBatch or as a bare map.
// The test fails if any combination panics.

import (
	"fmt"
	"os"
	"testing"

	"github.com/basekick-labs/arc/internal/config"
	"github.com/basekick-labs/arc/internal/storage"
	"github.com/rs/zerolog"
)

func boundedCol(typ, n int) interface{} {
	switch typ {
	case 0:
		return make([]int64, n)
	case 1:
		return make([]float64, n)
	case 2:
		return make([]string, n)
	}
	return make([]bool, n)
}

func TestVerifBoundedMergeBatches(t *testing.T) {
	backend, err := storage.NewLocalBackend(t.TempDir(), zerolog.Nop())
	if err != nil {
		t.Fatal(err)
	}
	b := NewArrowBuffer(&config.IngestConfig{MaxBufferSize: 100000, MaxBufferAgeMS: 600000, FlushWorkers: 1, FlushQueueSize: 4}, backend, zerolog.Nop())
	defer b.Close()
	names := []string{"v", "_x", ""}
	// one batch shape: rows (0..2), per name: absent or one of 4 types, and the wrapper kind
	type shape struct {
		rows  int
		types [3]int // -1 absent
		bare  bool
	}
	var shapes []shape
	for rows := 0; rows <= 2; rows++ {
		for a := -1; a < 4; a++ {
			for c := -1; c < 4; c++ {
				for d := -1; d < 4; d++ {
					for _, bare := range []bool{false, true} {
						shapes = append(shapes, shape{rows, [3]int{a, c, d}, bare})
					}
				}
			}
		}
	}
	build := func(s shape) interface{} {
		cols := map[string]interface{}{"time": make([]int64, s.rows)}
		for i, ty := range s.types {
			if ty >= 0 {
				cols[names[i]] = boundedCol(ty, s.rows)
			}
		}
		if s.bare {
			return cols
		}
		return &TypedColumnBatch{Data: cols, Signature: getColumnSignature(cols)}
	}
	maxBatches := 2
	stride := 7 // quick: sample every 7th third batch
	if os.Getenv("VERIF_TIER") == "thorough" {
		maxBatches, stride = 3, 1
	}
	count := 0
	try := func(bs []interface{}, desc string) {
		defer func() {
			if r := recover(); r != nil {
				t.Fatalf("mergeBatches panicked on %s: %v", desc, r)
			}
		}()
		_, _ = b.mergeBatches(bs)
		count++
	}
	for i, s1 := range shapes {
		for j, s2 := range shapes {
			try([]interface{}{build(s1), build(s2)}, fmt.Sprintf("shapes %d,%d (%+v | %+v)", i, j, s1, s2))
			if maxBatches >= 3 && (i+j)%97 == 0 {
				for k := 0; k < len(shapes); k += stride {
					try([]interface{}{build(s1), build(s2), build(shapes[k])}, fmt.Sprintf("shapes %d,%d,%d", i, j, k))
				}
			}
		}
	}
	t.Logf("mergeBatches: %d combinations, no panic", count)
}
