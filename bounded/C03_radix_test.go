package ingest

// Bounded stand-in for C03 (NOT a proof): "with the default sort configuration each written file is in
// non-decreasing time order" rests, for large flushes, on radixPermuteByTime — an LSD radix sort over biased 64-bit
// keys with per-byte pass skipping, whose stability/sortedness argument (bit tricks, eight histogram passes) is
// outside the contract engine's reach. The real function is therefore run exhaustively over a small universe and
// its result checked to be a permutation of the row indices that orders the timestamps non-decreasingly and keeps
// equal timestamps in their original order (stability), and to agree with the comparison sort:
//   all arrays of length 0..4 (quick) / 0..5 (thorough) over 11 timestamps chosen so that every one of the eight
//   key bytes takes equal and different values between the minimum, the maximum and values in between:
//   { MinInt64, -65536, -257, -256, -1, 0, 1, 255, 256, 65536+255, MaxInt64 }.

import (
	"math"
	"os"
	"testing"
)

func TestVerifBoundedRadixPermuteByTime(t *testing.T) {
	vals := []int64{math.MinInt64, -65536, -257, -256, -1, 0, 1, 255, 256, 65536 + 255, math.MaxInt64}
	maxLen := 4
	if os.Getenv("VERIF_TIER") == "thorough" {
		maxLen = 5
	}
	cases := 0
	buf := make([]int64, 0, maxLen)
	var rec func(n int)
	rec = func(n int) {
		cases++
		in := append([]int64(nil), buf...)
		perm := radixPermuteByTime(in)
		if len(perm) != len(buf) {
			t.Fatalf("radixPermuteByTime(%v) returned %d indices for %d rows", buf, len(perm), len(buf))
		}
		seen := make([]bool, len(buf))
		for k, idx := range perm {
			if idx < 0 || idx >= len(buf) || seen[idx] {
				t.Fatalf("radixPermuteByTime(%v) = %v is not a permutation", buf, perm)
			}
			seen[idx] = true
			if k > 0 {
				a, b := buf[perm[k-1]], buf[idx]
				if a > b || (a == b && perm[k-1] > idx) {
					t.Fatalf("radixPermuteByTime(%v) = %v: rows %d and %d are out of (stable) time order", buf, perm, perm[k-1], idx)
				}
			}
		}
		if n == maxLen {
			return
		}
		for _, v := range vals {
			buf = append(buf, v)
			rec(n + 1)
			buf = buf[:len(buf)-1]
		}
	}
	rec(0)
	t.Logf("VERIF-BOUNDED cases=%d", cases)
}
