package ingest

// Bounded stand-in for C02 (NOT a proof): the property is an equivalence between two decoders, which the per-clause
// contracts on tryDecodeColumnarTyped do not establish. Every columnar payload {m:"cpu", columns:{...}} with 1..3
// columns named from {time, v, w}, each an array of 0..2 elements drawn from
//     { 5 (int), 1700000000 (int, seconds), 1700000000500 (int, ms), 1700000000.5 (float), 2.25 (float), "a", true, nil }
// is decoded with the typed fast path on and off. Required: the same accept / reject decision (decode plus the
// write-time column conversion), and when both accept: the same row count, the same set of stored columns, and
// for every column the same Go type, values and validity.

import (
	"bytes"
	"fmt"
	"os"
	"reflect"
	"sort"
	"testing"

	"github.com/Basekick-Labs/msgpack/v6"
	"github.com/basekick-labs/arc/pkg/models"
	"github.com/rs/zerolog"
)

type verifElem struct {
	kind int // 0 int64, 1 float64, 2 string, 3 bool, 4 nil
	i    int64
	f    float64
	s    string
	b    bool
}

func verifC02Decode(payload []byte, typed bool) (ok bool, why string, batch *TypedColumnBatch, n int) {
	d := NewMessagePackDecoder(zerolog.Nop())
	d.SetTypedDecodeEnabled(typed)
	res, err := d.Decode(payload)
	if err != nil {
		return false, "decode: " + err.Error(), nil, 0
	}
	list, isList := res.([]interface{})
	if !isList || len(list) != 1 {
		return false, fmt.Sprintf("decode: %T", res), nil, 0
	}
	switch r := list[0].(type) {
	case *TypedColumnarRecord:
		return true, "typed", r.Batch, r.NumRecords
	case *models.ColumnarRecord:
		b := &ArrowBuffer{}
		bt, cnt, err := b.convertColumnsToTyped(r.Measurement, r.Columns)
		if err != nil {
			return false, "convert: " + err.Error(), nil, 0
		}
		return true, "generic", bt, cnt
	}
	return false, fmt.Sprintf("record %T", list[0]), nil, 0
}

func verifC02Render(b *TypedColumnBatch, serverTime bool) string {
	var names []string
	for k := range b.Data {
		names = append(names, k)
	}
	sort.Strings(names)
	out := ""
	for _, k := range names {
		v := b.Validity[k]
		allValid := true
		for _, x := range v {
			if !x {
				allValid = false
			}
		}
		if allValid {
			v = nil // "no entry" and "all true" mean the same
		}
		if k == "time" && serverTime {
			// no time column in the payload: the server stamps the rows with the current time (differs per run)
			out += fmt.Sprintf("time:%s=<server> n=%d; ", reflect.TypeOf(b.Data[k]), reflect.ValueOf(b.Data[k]).Len())
			continue
		}
		out += fmt.Sprintf("%s:%s=%v valid=%v; ", k, reflect.TypeOf(b.Data[k]), b.Data[k], v)
	}
	return out
}

func TestVerifBoundedTypedVsGenericDecode(t *testing.T) {
	elems := []verifElem{{kind: 0, i: 5}, {kind: 0, i: 1700000000}, {kind: 0, i: 1700000000500}, {kind: 1, f: 1700000000.5}, {kind: 1, f: 2.25}, {kind: 2, s: "a"}, {kind: 3, b: true}, {kind: 4}}
	maxCols := 2
	if os.Getenv("VERIF_TIER") == "thorough" {
		maxCols = 3
	}
	names := []string{"time", "v", "w"}
	var arrays [][]verifElem
	arrays = append(arrays, nil)
	for _, a := range elems {
		arrays = append(arrays, []verifElem{a})
		for _, b := range elems {
			arrays = append(arrays, []verifElem{a, b})
		}
	}
	count := 0
	check := func(cols []string, vals [][]verifElem) {
		var buf bytes.Buffer
		enc := msgpack.NewEncoder(&buf)
		enc.EncodeMapLen(2)
		enc.EncodeString("m")
		enc.EncodeString("cpu")
		enc.EncodeString("columns")
		enc.EncodeMapLen(len(cols))
		for ci, c := range cols {
			enc.EncodeString(c)
			enc.EncodeArrayLen(len(vals[ci]))
			for _, e := range vals[ci] {
				switch e.kind {
				case 0:
					enc.EncodeInt64(e.i)
				case 1:
					enc.EncodeFloat64(e.f)
				case 2:
					enc.EncodeString(e.s)
				case 3:
					enc.EncodeBool(e.b)
				default:
					enc.EncodeNil()
				}
			}
		}
		payload := buf.Bytes()
		count++
		onOK, onWhy, onB, onN := verifC02Decode(payload, true)
		offOK, offWhy, offB, offN := verifC02Decode(payload, false)
		desc := fmt.Sprintf("columns %v values %v", cols, vals)
		if onOK != offOK {
			t.Fatalf("%s: fast path on -> accepted=%v (%s); off -> accepted=%v (%s)", desc, onOK, onWhy, offOK, offWhy)
		}
		if !onOK {
			return
		}
		if onN != offN {
			t.Fatalf("%s: fast path on stores %d rows, off stores %d", desc, onN, offN)
		}
		hasTime := false
		for _, c := range cols {
			if c == "time" {
				hasTime = true
			}
		}
		if a, b := verifC02Render(onB, !hasTime), verifC02Render(offB, !hasTime); a != b {
			t.Fatalf("%s:\n fast path on : %s\n fast path off: %s", desc, a, b)
		}
	}
	var rec func(cols []string, vals [][]verifElem, from int)
	rec = func(cols []string, vals [][]verifElem, from int) {
		if len(cols) > 0 {
			check(cols, vals)
		}
		if len(cols) == maxCols {
			return
		}
		for ni := from; ni < len(names); ni++ {
			for _, arr := range arrays {
				rec(append(append([]string(nil), cols...), names[ni]), append(append([][]verifElem(nil), vals...), arr), ni+1)
			}
		}
	}
	rec(nil, nil, 0)
	t.Logf("%d payloads", count)
}
