package ingest

// Bounded stand-in for C01 (NOT a proof): splitOnDelimiter has no functional contract (its grammar-level
// contract over axiomatised prefix functions — "position i is an escape payload", "quote parity before i" — is
// designed in DESIGN.md §8 but not built). The real function is therefore compared with a reference splitter
// written from the rule it documents:
//   a backslash that is not the last byte escapes the next byte (both stay in the current part);
//   an unescaped double quote toggles "inside quotes";
//   an unescaped delimiter outside quotes ends the current part; empty parts are dropped;
//   parts are sub-slices of the input (compared here by content).
// Universe: all byte strings of length 0..7 (quick) / 0..8 (thorough) over { \ , " , ',' , ' ' , a , = },
// for both delimiters the parser uses (space and comma).

import (
	"os"
	"testing"
)

func verifRefSplit(data []byte, delim byte) []string {
	var parts []string
	start, inQuotes := 0, false
	i := 0
	for i < len(data) {
		c := data[i]
		switch {
		case c == '\\' && i+1 < len(data):
			i += 2
			continue
		case c == '"':
			inQuotes = !inQuotes
		case c == delim && !inQuotes:
			if i > start {
				parts = append(parts, string(data[start:i]))
			}
			start = i + 1
		}
		i++
	}
	if len(data) > start {
		parts = append(parts, string(data[start:]))
	}
	return parts
}

func TestVerifBoundedSplitOnDelimiter(t *testing.T) {
	alphabet := []byte{'\\', '"', ',', ' ', 'a', '='}
	maxLen := 7
	if os.Getenv("VERIF_TIER") == "thorough" {
		maxLen = 8
	}
	cases := 0
	buf := make([]byte, 0, maxLen)
	var rec func(n int)
	rec = func(n int) {
		for _, delim := range []byte{' ', ','} {
			cases++
			in := append([]byte(nil), buf...)
			got := splitOnDelimiter(in, delim)
			want := verifRefSplit(buf, delim)
			ok := len(got) == len(want)
			for k := 0; ok && k < len(got); k++ {
				ok = string(got[k]) == want[k]
			}
			if !ok {
				var gs []string
				for _, g := range got {
					gs = append(gs, string(g))
				}
				t.Fatalf("splitOnDelimiter(%q, %q) = %q, reference splitter gives %q", buf, delim, gs, want)
			}
		}
		if n == maxLen {
			return
		}
		for _, c := range alphabet {
			buf = append(buf, c)
			rec(n + 1)
			buf = buf[:len(buf)-1]
		}
	}
	rec(0)
	t.Logf("VERIF-BOUNDED cases=%d", cases)
}
