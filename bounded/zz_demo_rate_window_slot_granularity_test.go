package governance

// Demonstration for the C28 known finding `rate-window-slot-granularity`: the limiter counts admissions in whole
// slots (window/60, here window/6). A burst admitted at the END of one slot is forgotten as soon as that slot
// rotates out — (slotCount-1) slot lengths plus a moment later — so a second full burst is admitted less than one
// window length after the first: 2 x limit admissions inside one window of the configured length.

import (
	"testing"
	"time"
)

func TestVerifDemoTwoBurstsInsideOneWindow(t *testing.T) {
	const limit = 5
	window := 1200 * time.Millisecond
	slot := window / 6
	// start a counter, then wait until we are late in some slot
	s := newSlidingWindowCounter(window, 6, limit)
	for {
		into := time.Since(time.Now().Truncate(slot))
		if into > slot*7/10 && into < slot*85/100 {
			break
		}
		time.Sleep(2 * time.Millisecond)
	}
	var admitted []time.Time
	for i := 0; i < 3*limit; i++ {
		if s.Allow() {
			admitted = append(admitted, time.Now())
		}
	}
	if len(admitted) != limit {
		t.Skipf("first burst admitted %d (timing); nothing to demonstrate", len(admitted))
	}
	// the slot holding the first burst rotates out 6 slot boundaries after it began
	boundary := admitted[0].Truncate(slot).Add(6 * slot)
	time.Sleep(time.Until(boundary) + 5*time.Millisecond)
	for i := 0; i < 3*limit; i++ {
		if s.Allow() {
			admitted = append(admitted, time.Now())
		}
	}
	span := admitted[len(admitted)-1].Sub(admitted[0])
	if len(admitted) > limit && span < window {
		t.Fatalf("%d queries were admitted within %v, which is inside one rate-limit window of %v with limit %d", len(admitted), span, window, limit)
	}
}
