package api

// Bounded stand-in for C14 (NOT a proof): the permission check and the rewrite each decide on their own which names
// of a statement are CTE names (not measurements). Every measurement directory the rewritten statement reads must
// have been put to the RBAC checker - so a name the permission check skips as a CTE must never be turned into a
// storage path by the rewrite, on the header-database path and on the plain path alike, however the WITH clause is
// laid out. Universe: the statement
//
//	WITH <s1> [RECURSIVE <s2>] secretm <s3> AS <s4> (SELECT 1 AS x) <s5> SELECT * FROM <s6> secretm [s JOIN cpu ON 1=1]
//
// for every choice of separators s1..s6 from { space, newline, tab, CR LF, two spaces, a block comment, a line
// comment } (s4 may also be empty): 307,328 layouts (quick: every 5th, 61,465), each rewritten with
// and without the x-arc-database header, through getTransformedSQLForParallel (the endpoint's entry: fast paths, cache)
// and through the transform directly. Oracle: every `<base>/<db>/<measurement>/` that occurs in a read_parquet of
// the output was asked of the (recording) RBAC checker as (db, measurement) with the header applied.

import (
	"context"
	"os"
	"regexp"
	"testing"
	"time"

	"github.com/basekick-labs/arc/internal/auth"
	"github.com/basekick-labs/arc/internal/database"
	"github.com/basekick-labs/arc/internal/pruning"
	"github.com/gofiber/fiber/v2"
	"github.com/rs/zerolog"
	"github.com/valyala/fasthttp"
)

type verifAskedRBAC struct{ asked map[string]bool }

func (r *verifAskedRBAC) IsRBACEnabled() bool { return true }
func (r *verifAskedRBAC) CheckPermission(req *auth.PermissionCheckRequest) *auth.PermissionCheckResult {
	r.asked[req.Database+"."+req.Measurement] = true
	return &auth.PermissionCheckResult{Allowed: true, Source: "rbac"}
}
func (r *verifAskedRBAC) CheckPermissionsBatch(reqs []*auth.PermissionCheckRequest) []*auth.PermissionCheckResult {
	out := make([]*auth.PermissionCheckResult, len(reqs))
	for i, q := range reqs {
		out[i] = r.CheckPermission(q)
	}
	return out
}

func TestVerifBoundedCTENamesAgree(t *testing.T) {
	stride := 5
	if os.Getenv("VERIF_TIER") == "thorough" {
		stride = 1
	}
	rb := &verifAskedRBAC{}
	h := &QueryHandler{
		storage:     &mockLocalBackend{basePath: "./data"},
		pruner:      pruning.NewPartitionPruner(zerolog.Nop()),
		logger:      zerolog.Nop(),
		rbacManager: rb,
		queryCache:  database.NewQueryCache(time.Minute, 16),
	}
	app := fiber.New()
	newCtx := func(header string) *fiber.Ctx {
		fc := &fasthttp.RequestCtx{}
		if header != "" {
			fc.Request.Header.Set("x-arc-database", header)
		}
		c := app.AcquireCtx(fc)
		c.Locals("token_info", &auth.TokenInfo{ID: 1, Name: "verif"})
		return c
	}
	cHdr, cPlain := newCtx("tenantb"), newCtx("")
	defer app.ReleaseCtx(cHdr)
	defer app.ReleaseCtx(cPlain)
	pathRe := regexp.MustCompile(`\./data/([A-Za-z0-9_]+)/([A-Za-z0-9_]+)/`)

	seps := []string{" ", "\n", "\t", "\r\n", "  ", " /* c */ ", " -- c\n"}
	seps4 := append([]string{""}, seps...)
	n, reads := 0, 0
	k := 0
	for _, rec := range []bool{false, true} {
		for _, join := range []bool{false, true} {
			for _, s1 := range seps {
				for _, s3 := range seps {
					for _, s4 := range seps4 {
						for _, s5 := range seps {
							for _, s6 := range seps {
								for _, s2 := range seps {
									if !rec && s2 != " " {
										continue
									}
									k++
									if k%stride != 0 {
										continue
									}
									q := "WITH" + s1
									if rec {
										q += "RECURSIVE" + s2
									}
									q += "secretm" + s3 + "AS" + s4 + "(SELECT 1 AS x)" + s5 + "SELECT * FROM" + s6 + "secretm"
									if join {
										q += " s JOIN cpu ON 1=1"
									}
									n++
									for _, hdr := range []string{"tenantb", ""} {
										c := cPlain
										if hdr != "" {
											c = cHdr
										}
										rb.asked = map[string]bool{}
										if err := h.checkQueryPermissions(c, q, "read"); err != nil {
											t.Fatalf("%q: %v", q, err)
										}
										// the entry point the query endpoint uses (fast paths, parallel variant, cache), then
										// the transform proper
										out, _, _ := h.getTransformedSQLForParallel(context.Background(), q, hdr)
										if hdr != "" {
											out += "\n" + h.convertSQLToStoragePathsWithHeaderDB(context.Background(), q, hdr)
										} else {
											out += "\n" + h.convertSQLToStoragePaths(context.Background(), q)
										}
										for _, m := range pathRe.FindAllStringSubmatch(out, -1) {
											reads++
											if !rb.asked[m[1]+"."+m[2]] {
												t.Fatalf("%q (x-arc-database=%q) is rewritten to %q, which reads %s/%s - but the permission check only asked about %v", q, hdr, out, m[1], m[2], rb.asked)
											}
										}
									}
								}
							}
						}
					}
				}
			}
		}
	}
	if reads == 0 {
		t.Fatalf("no layout produced a read_parquet: the check is vacuous")
	}
	t.Logf("%d layouts (x2 header settings), %d measurement reads checked", n, reads)
}
