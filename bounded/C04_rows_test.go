package ingest

// Bounded stand-in for C04 (NOT a proof): rowsToColumnar builds, from a row-format batch, the column map the
// flush path later indexes by row number. Its no-crash condition — no column is shorter than the number of rows —
// rests on two passes (create columns / populate them) applying the same tag-vs-field renaming rule, through
// nested map iteration that is outside the contract engine's comfortable reach. The real function is therefore
// run exhaustively over a small universe:
//   1 or 2 rows of one measurement; each row has any subset of the tags {s, v} and any subset of the fields
//   {s, v, s_value} (so tag/field name collisions in one row, in the other row only, or in both are all covered).
// The test fails if any column of the result has fewer entries than there are rows, or if the time column does
// not have exactly one entry per row.

import (
	"testing"

	"github.com/basekick-labs/arc/internal/config"
	"github.com/basekick-labs/arc/internal/storage"
	"github.com/basekick-labs/arc/pkg/models"
	"github.com/rs/zerolog"
)

func TestVerifBoundedRowsToColumnar(t *testing.T) {
	backend, err := storage.NewLocalBackend(t.TempDir(), zerolog.Nop())
	if err != nil {
		t.Fatal(err)
	}
	b := NewArrowBuffer(&config.IngestConfig{MaxBufferSize: 100000, MaxBufferAgeMS: 600000, FlushWorkers: 1, FlushQueueSize: 4}, backend, zerolog.Nop())
	defer b.Close()
	tagNames := []string{"s", "v"}
	fieldNames := []string{"s", "v", "s_value"}
	var shapes []*models.Record
	for tm := 0; tm < 1<<len(tagNames); tm++ {
		for fm := 0; fm < 1<<len(fieldNames); fm++ {
			r := &models.Record{Measurement: "m", Timestamp: 1700000000000000, Tags: map[string]string{}, Fields: map[string]interface{}{}}
			for i, n := range tagNames {
				if tm&(1<<i) != 0 {
					r.Tags[n] = "t"
				}
			}
			for i, n := range fieldNames {
				if fm&(1<<i) != 0 {
					r.Fields[n] = 1.5
				}
			}
			shapes = append(shapes, r)
		}
	}
	cases := 0
	check := func(rows []*models.Record) {
		cases++
		rec := b.rowsToColumnar("m", rows)
		if got := len(rec.Columns["time"]); got != len(rows) {
			t.Fatalf("time column has %d entries for %d rows", got, len(rows))
		}
		for name, col := range rec.Columns {
			if len(col) < len(rows) {
				t.Fatalf("column %q has %d entries for %d rows (rows: tags %v fields %v / ...): the flush path indexes every column by row number", name, len(col), len(rows), rows[0].Tags, rows[0].Fields)
			}
		}
	}
	for _, a := range shapes {
		check([]*models.Record{a})
		for _, c := range shapes {
			check([]*models.Record{a, c})
		}
	}
	t.Logf("VERIF-BOUNDED cases=%d", cases)
}
