package edgesync

// Bounded stand-in for C27 (NOT a proof): Reconciler.confirmPresent fans existence checks out over goroutines,
// which is outside the contract engine's subset, so Reconcile's proof TRUSTS it to return "the stale paths".
// The real function is therefore run over a small universe and compared with the definition:
//   the result is exactly the set of entries that are in `held`, are not marked compacted, and whose file the
//   backend says does not exist.
// Universe: n = 0..70 entries (so every remainder of n modulo the fan-out width 32 occurs, and n crosses it
// twice); for each n three patterns of missing files (none, every third, all) and every 5th entry compacted.

import (
	"context"
	"fmt"
	"sort"
	"strings"
	"testing"

	"github.com/basekick-labs/arc/internal/storage"
)

type verifExistsBackend struct {
	storage.Backend
	missing map[string]bool
}

func (b *verifExistsBackend) Exists(_ context.Context, path string) (bool, error) {
	return !b.missing[path], nil
}

func TestVerifBoundedConfirmPresent(t *testing.T) {
	const spoke = "spoke-1"
	cases := 0
	for n := 0; n <= 70; n++ {
		for pattern := 0; pattern < 3; pattern++ {
			entries := make([]ReconcileEntry, n)
			held := make(map[string]HeldFile, n)
			missing := map[string]bool{}
			var want []string
			for i := 0; i < n; i++ {
				p := fmt.Sprintf("db/m/2024/01/01/%02d/f%03d.parquet", i%24, i)
				entries[i] = ReconcileEntry{Path: p, SHA256: strings.Repeat("a", 64)}
				hf := HeldFile{SHA256: strings.Repeat("a", 64)}
				hf.Compacted = i%5 == 4
				held[p] = hf
				gone := pattern == 2 || (pattern == 1 && i%3 == 0)
				if gone {
					missing[NamespacedPath(spoke, p)] = true
					if !hf.Compacted {
						want = append(want, p)
					}
				}
			}
			r := &Reconciler{backend: &verifExistsBackend{missing: missing}, maxEntries: 1000}
			got, err := r.confirmPresent(context.Background(), spoke, entries, held)
			cases++
			if err != nil {
				t.Fatalf("n=%d pattern=%d: %v", n, pattern, err)
			}
			sort.Strings(got)
			sort.Strings(want)
			if strings.Join(got, ",") != strings.Join(want, ",") {
				t.Fatalf("n=%d pattern=%d: confirmPresent reported %d stale paths, %d files are gone (first difference decides whether the hub vouches for a file it no longer holds)\n got  %v\n want %v", n, pattern, len(got), len(want), got, want)
			}
		}
	}
	t.Logf("VERIF-BOUNDED cases=%d", cases)
}
