package api

// Bounded stand-in for C10 (NOT a proof): the whole delete endpoint - affected-file search, per-file counts, the
// mapping of DuckDB's result rows back to files, the rewrite - run for real (real DuckDB, real Parquet files, real
// LocalBackend) over a small universe, against the statement of the property itself:
//   - after a confirmed delete the measurement holds exactly the previous rows for which the predicate IS NOT TRUE
//     (DuckDB itself evaluates the predicate over a copy of the rows for the reference),
//   - deleted_count equals the number of rows that disappeared,
//   - a dry run changes nothing and reports the same count.
// Universe: every non-empty subset of three files - 00/data.parquet, 01/data.parquet (same base name in another
// partition) and 01/other.parquet - holding two rows each with NULLs in both value columns, x 14 predicates
// (comparisons, NOT, AND/OR, IS [NOT] NULL, LIKE, IN, NOT IN): 98 deletes, each preceded by its dry run.
//
// The contracts on handleDelete / countMatchingRowsInFiles name locals of the current implementation; a change that
// replaces those data structures leaves them undecided, and this run is what still decides the property then.

import (
	"bytes"
	"encoding/json"
	"fmt"
	"io"
	"net/http/httptest"
	"os"
	"path/filepath"
	"testing"

	"github.com/basekick-labs/arc/internal/config"
	"github.com/basekick-labs/arc/internal/database"
	"github.com/basekick-labs/arc/internal/storage"
	"github.com/gofiber/fiber/v2"
	"github.com/rs/zerolog"
)

func TestVerifBoundedDeleteEndToEnd(t *testing.T) {
	type file struct{ rel, values string }
	files := []file{
		{"db/m/2024/01/01/00/data.parquet", "(1, 10, 'x'), (2, 1, NULL)"},
		{"db/m/2024/01/01/01/data.parquet", "(3, 20, NULL), (4, NULL, 'y')"},
		{"db/m/2024/01/01/01/other.parquet", "(5, NULL, 'x'), (6, 3, 'xy')"},
	}
	preds := []string{
		"v > 5", "v <= 5", "v IS NULL", "v IS NOT NULL", "NOT (v > 5)", "v > 5 OR s = 'x'", "v > 5 AND s = 'x'",
		"s LIKE 'x%'", "s IN ('x', 'y')", "v NOT IN (1, 3)", "id = 2", "v > 5 OR v <= 5", "s IS NULL AND v < 5", "v <> 1",
	}
	logger := zerolog.Nop()
	n := 0
	for mask := 1; mask < 8; mask++ {
		for _, where := range preds {
			n++
			root, err := os.MkdirTemp("", "verif-c10-")
			if err != nil {
				t.Fatal(err)
			}
			func() {
				defer os.RemoveAll(root)
				backend, err := storage.NewLocalBackend(root, logger)
				if err != nil {
					t.Fatalf("NewLocalBackend: %v", err)
				}
				duck, err := database.New(&database.Config{MemoryLimit: "256MB", ThreadCount: 2, MaxConnections: 2, LocalStorageRoot: root}, logger)
				if err != nil {
					t.Fatalf("database.New: %v", err)
				}
				defer duck.Close()
				h := NewDeleteHandler(duck, backend, &config.DeleteConfig{Enabled: true, ConfirmationThreshold: 1000, MaxRowsPerDelete: 1000000}, nil, filepath.Join(root, "staging"), logger)
				var all string
				for i, f := range files {
					if mask&(1<<i) == 0 {
						continue
					}
					full := filepath.Join(root, f.rel)
					if err := os.MkdirAll(filepath.Dir(full), 0o755); err != nil {
						t.Fatal(err)
					}
					q := fmt.Sprintf("COPY (SELECT * FROM (VALUES %s) AS t(id, v, s)) TO '%s' (FORMAT PARQUET)", f.values, full)
					if _, err := duck.DB().Exec(q); err != nil {
						t.Fatalf("write %s: %v", f.rel, err)
					}
					if all != "" {
						all += ", "
					}
					all += f.values
				}
				ids := func(q string) string {
					rows, err := duck.DB().Query(q)
					if err != nil {
						t.Fatalf("%s: %v", q, err)
					}
					defer rows.Close()
					var out []int64
					for rows.Next() {
						var id int64
						if err := rows.Scan(&id); err != nil {
							t.Fatal(err)
						}
						out = append(out, id)
					}
					return fmt.Sprint(out)
				}
				stored := fmt.Sprintf("SELECT id FROM read_parquet('%s') ORDER BY id", filepath.Join(root, "db/m/*/*/*/*/*.parquet"))
				before := ids(stored)
				want := ids(fmt.Sprintf("SELECT id FROM (VALUES %s) AS t(id, v, s) WHERE (%s) IS NOT TRUE ORDER BY id", all, where))
				var nBefore, nWant int
				fmt.Sscan(ids(fmt.Sprintf("SELECT count(*) FROM (VALUES %s) AS t(id, v, s)", all))[1:], &nBefore)
				fmt.Sscan(ids(fmt.Sprintf("SELECT count(*) FROM (VALUES %s) AS t(id, v, s) WHERE (%s) IS NOT TRUE", all, where))[1:], &nWant)

				app := fiber.New()
				h.RegisterRoutes(app)
				post := func(req DeleteRequest) DeleteResponse {
					body, _ := json.Marshal(req)
					r := httptest.NewRequest("POST", "/api/v1/delete/", bytes.NewReader(body))
					r.Header.Set("Content-Type", "application/json")
					resp, err := app.Test(r, -1)
					if err != nil {
						t.Fatalf("app.Test: %v", err)
					}
					defer resp.Body.Close()
					raw, _ := io.ReadAll(resp.Body)
					var out DeleteResponse
					if err := json.Unmarshal(raw, &out); err != nil {
						t.Fatalf("decode %q: %v", raw, err)
					}
					if resp.StatusCode != 200 || !out.Success {
						t.Fatalf("files %03b, WHERE %s: delete failed: status=%d body=%s", mask, where, resp.StatusCode, raw)
					}
					return out
				}
				dry := post(DeleteRequest{Database: "db", Measurement: "m", Where: where, DryRun: true})
				if got := ids(stored); got != before {
					t.Fatalf("files %03b, WHERE %s: the dry run changed the data: %s -> %s", mask, where, before, got)
				}
				real := post(DeleteRequest{Database: "db", Measurement: "m", Where: where, Confirm: true})
				after := "[]"
				if nWant > 0 || real.DeletedCount == 0 {
					after = ids(stored)
				} else if m, _ := filepath.Glob(filepath.Join(root, "db/m/*/*/*/*/*.parquet")); len(m) > 0 {
					after = ids(stored)
				}
				if after != want {
					t.Fatalf("files %03b, WHERE %s: rows after the delete are %s, the rows for which the predicate is not true are %s (before: %s)", mask, where, after, want, before)
				}
				if real.DeletedCount != int64(nBefore-nWant) {
					t.Fatalf("files %03b, WHERE %s: deleted_count=%d, but %d rows disappeared", mask, where, real.DeletedCount, nBefore-nWant)
				}
				if dry.DeletedCount != real.DeletedCount {
					t.Fatalf("files %03b, WHERE %s: the dry run reported %d, the delete %d", mask, where, dry.DeletedCount, real.DeletedCount)
				}
			}()
		}
	}
	t.Logf("%d deletes", n)
}
