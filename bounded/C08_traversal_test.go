package raft

// Bounded stand-in for C08 (NOT a proof): hasParentTraversalSegment (the `..`-segment test of
// ValidateManifestPath, whose contract is trusted) is compared with a reference written from its documented
// rule: the path is split at every '/' and every '\'; it is rejected iff some piece equals "..".
// Universe: all strings of length 0..8 (quick) / 0..10 (thorough) over { '.', '/', '\', 'a' }.

import (
	"os"
	"testing"
)

func verifRefTraversal(p string) bool {
	start := 0
	for i := 0; i <= len(p); i++ {
		if i == len(p) || p[i] == '/' || p[i] == '\\' {
			if p[start:i] == ".." {
				return true
			}
			start = i + 1
		}
	}
	return false
}

func TestVerifBoundedTraversalSegment(t *testing.T) {
	maxLen := 8
	if os.Getenv("VERIF_TIER") == "thorough" {
		maxLen = 10
	}
	alpha := []byte{'.', '/', '\\', 'a'}
	buf := make([]byte, 0, maxLen)
	n := 0
	var rec func()
	rec = func() {
		s := string(buf)
		n++
		if got, want := hasParentTraversalSegment(s), verifRefTraversal(s); got != want {
			t.Fatalf("hasParentTraversalSegment(%q) = %v, reference says %v", s, got, want)
		}
		if len(buf) == maxLen {
			return
		}
		for _, c := range alpha {
			buf = append(buf, c)
			rec()
			buf = buf[:len(buf)-1]
		}
	}
	rec()
	t.Logf("%d strings", n)
}
