package ingest

// Bounded stand-in for C01 (NOT a proof): BatchToColumnar has no functional contract. The real function is run on
// every batch of up to 6 (thorough: 7) points whose measurements are drawn from {a, b, c}, each point carrying a
// distinct timestamp and a field v equal to its position in the batch; the result must hold every point exactly
// once, under its own measurement, with its own timestamp and value, in batch order within the measurement.

import (
	"os"
	"testing"

	"github.com/basekick-labs/arc/pkg/models"
)

func TestVerifBoundedBatchToColumnar(t *testing.T) {
	maxLen := 6
	if os.Getenv("VERIF_TIER") == "thorough" {
		maxLen = 7
	}
	names := []string{"a", "b", "c"}
	seq := make([]int, 0, maxLen)
	n := 0
	var rec func()
	rec = func() {
		if len(seq) > 0 {
			n++
			records := make([]*models.Record, len(seq))
			want := map[string][]int64{}
			for i, m := range seq {
				records[i] = &models.Record{Measurement: names[m], Timestamp: int64(1000 + i), Fields: map[string]interface{}{"v": int64(i)}, Tags: map[string]string{}}
				want[names[m]] = append(want[names[m]], int64(i))
			}
			got := BatchToColumnar(records)
			if len(got) != len(want) {
				t.Fatalf("batch %v: %d measurements in the result, %d in the batch", seq, len(got), len(want))
			}
			for m, vs := range want {
				cr := got[m]
				if cr == nil {
					t.Fatalf("batch %v: measurement %s missing from the result", seq, m)
				}
				times, vals := cr.Columns["time"], cr.Columns["v"]
				if len(times) != len(vs) || len(vals) != len(vs) {
					t.Fatalf("batch %v: measurement %s has %d points in the batch, %d time cells and %d v cells in the result", seq, m, len(vs), len(times), len(vals))
				}
				for k, v := range vs {
					if vals[k] != interface{}(v) || times[k] != interface{}(int64(1000)+v) {
						t.Fatalf("batch %v: measurement %s row %d is (time %v, v %v), expected (time %d, v %d)", seq, m, k, times[k], vals[k], 1000+v, v)
					}
				}
			}
		}
		if len(seq) == maxLen {
			return
		}
		for m := range names {
			seq = append(seq, m)
			rec()
			seq = seq[:len(seq)-1]
		}
	}
	rec()
	t.Logf("%d batches", n)
}
