package api

// Bounded stand-in for C15 (NOT a proof): that stripSQLComments removes exactly the comments — `--` to the end of
// the line (the newline stays), `/* … */` replaced by one space, an unterminated block comment running to the end —
// and copies every other character unchanged needs a statement about the whole output text, which the contract
// engine has no writer-content model for (its contracts cover the position logic only). The real function is
// therefore compared with a reference lexer written from that sentence, exhaustively over
//   all strings of length 0..7 (quick) / 0..8 (thorough) over the alphabet { '-', '/', '*', '\n', 'a', ' ' }.
// Quotes are deliberately not in the alphabet: how comment markers inside string literals are treated is a
// separate question (the callers mask literals first).

import (
	"os"
	"strings"
	"testing"
)

func verifRefStrip(s string) string {
	var out strings.Builder
	i := 0
	for i < len(s) {
		if i+1 < len(s) && s[i] == '-' && s[i+1] == '-' {
			for i < len(s) && s[i] != '\n' {
				i++
			}
			if i < len(s) {
				out.WriteByte('\n')
				i++
			}
			continue
		}
		if i+1 < len(s) && s[i] == '/' && s[i+1] == '*' {
			end := strings.Index(s[i+2:], "*/")
			out.WriteByte(' ')
			if end < 0 {
				i = len(s)
			} else {
				i = i + 2 + end + 2
			}
			continue
		}
		out.WriteByte(s[i])
		i++
	}
	return out.String()
}

func TestVerifBoundedStripSQLComments(t *testing.T) {
	alphabet := []byte{'-', '/', '*', '\n', 'a', ' '}
	maxLen := 7
	if os.Getenv("VERIF_TIER") == "thorough" {
		maxLen = 8
	}
	cases := 0
	buf := make([]byte, 0, maxLen)
	var rec func(n int)
	rec = func(n int) {
		s := string(buf)
		cases++
		if got, want := stripSQLComments(s, true), verifRefStrip(s); got != want {
			t.Fatalf("stripSQLComments(%q) = %q, reference lexer gives %q", s, got, want)
		}
		if n == maxLen {
			return
		}
		for _, c := range alphabet {
			buf = append(buf, c)
			rec(n + 1)
			buf = buf[:len(buf)-1]
		}
	}
	rec(0)
	t.Logf("VERIF-BOUNDED cases=%d", cases)
}
