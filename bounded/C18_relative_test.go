package pruning

// Bounded stand-in for C18 (NOT a proof): the relative-time patterns are regular expressions, which the engine
// treats as opaque library calls. The real ExtractTimeRange is run on
//     SELECT * FROM m WHERE time > NOW() - INTERVAL '<body>'   and   ... time < NOW() - INTERVAL '<body>'
// for every <body> built from up to 4 (thorough: 5) tokens of { 1, 3, ' ', day, days, hour, hours, week, x } and
// compared with a reference written from the rule the pruner documents: a bound is derived only from an interval
// literal that is exactly <digits><optional spaces><unit> with nothing after it; it is then now -/+ n units.
// Any other literal (compound intervals such as '1 day 12 hours', trailing text) must not produce a bound: the
// query then runs unpruned, which is always correct, whereas a bound taken from a prefix of the literal is wrong.

import (
	"os"
	"strings"
	"testing"
	"time"

	"github.com/rs/zerolog"
)

func verifRefInterval(body string) (time.Duration, bool) {
	i := 0
	for i < len(body) && body[i] >= '0' && body[i] <= '9' {
		i++
	}
	if i == 0 {
		return 0, false
	}
	n := 0
	for _, c := range body[:i] {
		n = n*10 + int(c-'0')
	}
	rest := strings.TrimLeft(body[i:], " ")
	units := map[string]time.Duration{"day": 24 * time.Hour, "days": 24 * time.Hour, "hour": time.Hour, "hours": time.Hour, "week": 7 * 24 * time.Hour}
	d, ok := units[rest]
	if !ok {
		return 0, false
	}
	return time.Duration(n) * d, true
}

func TestVerifBoundedRelativeInterval(t *testing.T) {
	maxTok := 4
	if os.Getenv("VERIF_TIER") == "thorough" {
		maxTok = 5
	}
	toks := []string{"1", "3", " ", "day", "days", "hour", "hours", "week", "x"}
	p := NewPartitionPruner(zerolog.Nop())
	count := 0
	var rec func(body string, depth int)
	rec = func(body string, depth int) {
		if body != "" {
			count++
			want, ok := verifRefInterval(body)
			for _, op := range []string{">", "<"} {
				q := "SELECT * FROM m WHERE time " + op + " NOW() - INTERVAL '" + body + "'"
				now := time.Now().UTC()
				tr := p.ExtractTimeRange(q)
				if !ok {
					if tr != nil {
						t.Fatalf("interval literal %q is not <n> <unit>, yet a range was derived from it: %v .. %v (query %q)", body, tr.Start, tr.End, q)
					}
					continue
				}
				if tr == nil {
					t.Fatalf("interval literal %q: no range derived (query %q)", body, q)
				}
				got := tr.Start
				if op == "<" {
					got = tr.End
				}
				if diff := got.Sub(now.Add(-want)); diff < -5*time.Second || diff > 5*time.Second {
					t.Fatalf("interval literal %q with %q: bound %v, expected about %v", body, op, got, now.Add(-want))
				}
			}
		}
		if depth == maxTok {
			return
		}
		for _, tk := range toks {
			rec(body+tk, depth+1)
		}
	}
	rec("", 0)
	t.Logf("%d interval literals", count)
}
