#!/bin/bash
# seed_confirm.sh <prop-id> <A|B> : confirm in the scratch worktree /tmp/wt_<id> that the seeded change compiles,
# its demo fails with the change and passes without it, and the touched package's tests still pass; then
# store it under /verif/seeded/<id>-<A|B>/ and run the property's check against it.
set -u
id="$1"; v="$2"; wt=/tmp/wt_$id; out=$wt/seed_out
export PATH=/opt/veriftools/go1.26.8/bin:$PATH GOTOOLCHAIN=local GOPROXY=off GOSUMDB=off; unset GOFLAGS
pkg=$(python3 -c "
import json,sys
m=json.load(open('$out/meta.json'))
e=m.get('$v') or m.get('change_$v') or [x for x in (m if isinstance(m,list) else m.get('changes',[])) if x.get('id','$v')=='$v'][0]
print(e['demo_package_dir'].replace('/tmp/wt_$id/','').rstrip('/'))")
tname=$(python3 -c "
import json
m=json.load(open('$out/meta.json'))
e=m.get('$v') or m.get('change_$v') or [x for x in (m if isinstance(m,list) else m.get('changes',[])) if x.get('id','$v')=='$v'][0]
print(e['demo_test_name'])")
cd $wt || exit 2
git checkout -q -- . ; git clean -fdq -e seed_out
cp $out/zz_seed_demo_${v}_test.go $pkg/
echo "== demo on original (must pass)"; go test -vet=off -count=1 -run "^${tname}\$" ./$pkg/ 2>&1 | tail -2
git apply $out/$v.diff || { echo "APPLY FAILED"; exit 2; }
echo "== build with change"; go build $(go list ./... | grep -v seed_out) 2>&1 | tail -2
echo "== demo with change (must fail)"; go test -vet=off -count=1 -run "^${tname}\$" ./$pkg/ 2>&1 | tail -3
rm -f $pkg/zz_seed_demo_${v}_test.go
echo "== existing tests of $pkg with change (must pass)"; go test -vet=off -count=1 ./$pkg/ 2>&1 | tail -2
git checkout -q -- . ; git clean -fdq -e seed_out
d=/verif/seeded/$id-$v; mkdir -p $d
cp $out/$v.diff $d/patch.diff; cp $out/zz_seed_demo_${v}_test.go $d/; 
echo "== check against the change"; /verif/seedtest.sh $id $d/patch.diff | tee $d/check_output.txt
