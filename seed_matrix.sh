#!/bin/bash
# seed_matrix.sh : run every seeded change (and every selftest mutant) against its property's quick check in a
# scratch worktree and write /verif/seeded/MATRIX.md (which obligation reports it, or MISSED). Developer tool.
cd "$(dirname "$0")"
out=seeded/MATRIX.md
echo "| change | property | verdict | reporting obligation(s) |" > $out.tmp
echo "|---|---|---|---|" >> $out.tmp
for p in seeded/*/patch.diff selftest/*/*.diff; do
  d=$(dirname $p); id=$(echo $p | grep -o 'C[0-9][0-9]' | head -1)
  name=$(basename $d); [ "$(dirname $d)" = "selftest" ] && name="selftest/$id/$(basename $p .diff)"
  res=$(./seedtest.sh $id $PWD/$p 2>&1)
  obls=$(echo "$res" | grep '^VIOLATION' | sed 's/.*obligation=//; s/ no-failing-input-found//' | sort -u | head -4 | tr '\n' ';' | sed 's/;$//; s/;/<br>/g')
  if echo "$res" | grep -q "^VIOLATION property=$id "; then v=caught; else v=MISSED; obls=$(echo "$res" | grep 'UNDECIDED\|does not apply' | head -2 | cut -c1-160 | tr '\n' ' '); fi
  echo "| $name | $id | $v | $obls |" >> $out.tmp
  echo "$name $v"
done
mv $out.tmp $out
