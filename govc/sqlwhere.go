package main

// K6d — what a constant SELECT/UPDATE/DELETE can touch: WHERE-clause entailment.
//
// Where a property's mechanism is "only rows with <condition> are returned/changed" and the condition is part
// of a constant SQL text, the text is extracted from the real Query/QueryRow/Exec call on every run, its WHERE
// clause is parsed into a boolean combination (NOT / AND / OR / parentheses, SQL precedence) of opaque atoms,
// and the obligation is, in SQL's three-valued logic,   WHERE is TRUE  ==>  each required atom is TRUE,
// discharged by the solver. Atoms are compared textually after normalisation (upper case, single spaces).
// A text that is not a compile-time constant, has no WHERE, or does not contain the identifying substring is
// reported as undecided, never passed.
//
// What this assumes: a row is selected only if the whole WHERE evaluates to TRUE (assumed SQL semantics), and
// the atoms are independent (no theory of the comparisons themselves).

import (
	"fmt"
	"regexp"
	"sort"
	"strings"

	"golang.org/x/tools/go/ssa"
)

type WhereCheck struct {
	Name      string   `json:"name"`
	PkgSuffix string   `json:"package_suffix"`
	Function  string   `json:"function"` // function key containing the call
	Contains  string   `json:"contains"` // substring identifying the statement
	Requires  []string `json:"requires"` // atoms that must hold for every selected row, e.g. "enabled = 1"
}

var whereQueryNames = regexp.MustCompile(`^\(\*?sql\.(DB|Tx|Conn|Stmt)\)\.(Query|QueryRow|Exec)(Context)?$`)

type whereNode struct {
	op   string // "atom", "not", "and", "or"
	atom string
	kids []*whereNode
}

func normAtom(toks []sqlTok) string {
	var parts []string
	for _, t := range toks {
		parts = append(parts, t.s)
	}
	return strings.Join(parts, " ")
}

// parseWhere parses toks (the WHERE clause) with precedence NOT > AND > OR.
type whereParser struct {
	toks []sqlTok
	i    int
	err  string
}

func (p *whereParser) peek() string {
	if p.i < len(p.toks) {
		return p.toks[p.i].s
	}
	return ""
}

func (p *whereParser) parseOr() *whereNode {
	n := p.parseAnd()
	for p.peek() == "OR" {
		p.i++
		n = &whereNode{op: "or", kids: []*whereNode{n, p.parseAnd()}}
	}
	return n
}

func (p *whereParser) parseAnd() *whereNode {
	n := p.parseNot()
	for p.peek() == "AND" {
		p.i++
		n = &whereNode{op: "and", kids: []*whereNode{n, p.parseNot()}}
	}
	return n
}

func (p *whereParser) parseNot() *whereNode {
	if p.peek() == "NOT" {
		p.i++
		return &whereNode{op: "not", kids: []*whereNode{p.parseNot()}}
	}
	return p.parsePrimary()
}

func (p *whereParser) parsePrimary() *whereNode {
	if p.peek() == "(" {
		// a parenthesised boolean expression — or the start of an atom such as "(a, b) IN (…)"; try boolean first
		save := p.i
		p.i++
		n := p.parseOr()
		if p.peek() == ")" && p.err == "" {
			p.i++
			nx := p.peek()
			if nx == "" || nx == "AND" || nx == "OR" || nx == ")" {
				return n
			}
		}
		p.i, p.err = save, ""
	}
	// atom: tokens up to the next AND/OR at this parenthesis level, or an unmatched ")"
	start := p.i
	depth := 0
	between := false
	for p.i < len(p.toks) {
		s := p.toks[p.i].s
		if s == "(" {
			depth++
		} else if s == ")" {
			if depth == 0 {
				break
			}
			depth--
		} else if depth == 0 {
			if s == "BETWEEN" {
				between = true
			} else if s == "AND" && between {
				between = false // the AND of BETWEEN … AND … belongs to the atom
				p.i++
				continue
			} else if s == "AND" || s == "OR" {
				break
			}
		}
		p.i++
	}
	if p.i == start {
		p.err = "empty condition"
		return &whereNode{op: "atom", atom: ""}
	}
	return &whereNode{op: "atom", atom: normAtom(p.toks[start:p.i])}
}

// whereClause returns the tokens of the top-level WHERE clause of q (up to GROUP/ORDER/LIMIT/RETURNING or the end).
func whereClause(q string) ([]sqlTok, bool) {
	toks := sqlTokens(q)
	start := -1
	for i, t := range toks {
		if t.s == "WHERE" && t.depth == 0 {
			start = i + 1
			break
		}
	}
	if start < 0 {
		return nil, false
	}
	end := len(toks)
	for i := start; i < len(toks); i++ {
		if toks[i].depth == 0 {
			switch toks[i].s {
			case "GROUP", "ORDER", "LIMIT", "RETURNING", "HAVING", "UNION", ";":
				end = i
			}
		}
		if end != len(toks) {
			break
		}
	}
	return toks[start:end], true
}

// 3VL encoding: every atom a has two Booleans aT, aF (not both). tr(n) = "n is TRUE", fa(n) = "n is FALSE".
func (n *whereNode) tr(id func(string) string) string {
	switch n.op {
	case "atom":
		return id(n.atom) + "_T"
	case "not":
		return n.kids[0].fa(id)
	case "and":
		return "(and " + n.kids[0].tr(id) + " " + n.kids[1].tr(id) + ")"
	default:
		return "(or " + n.kids[0].tr(id) + " " + n.kids[1].tr(id) + ")"
	}
}

func (n *whereNode) fa(id func(string) string) string {
	switch n.op {
	case "atom":
		return id(n.atom) + "_F"
	case "not":
		return n.kids[0].tr(id)
	case "and":
		return "(or " + n.kids[0].fa(id) + " " + n.kids[1].fa(id) + ")"
	default:
		return "(and " + n.kids[0].fa(id) + " " + n.kids[1].fa(id) + ")"
	}
}

func (n *whereNode) String() string {
	switch n.op {
	case "atom":
		return "[" + n.atom + "]"
	case "not":
		return "NOT " + n.kids[0].String()
	default:
		return "(" + n.kids[0].String() + " " + strings.ToUpper(n.op) + " " + n.kids[1].String() + ")"
	}
}

func (p *Program) whereObligations(wc WhereCheck, anyFn *ssa.Function) ([]*FuncResult, []string) {
	var results []*FuncResult
	var undecided []string
	fn := p.funcs[wc.Function]
	if fn == nil {
		return nil, []string{fmt.Sprintf("where %s: function %s not found (contract-stale)", wc.Name, wc.Function)}
	}
	found := 0
	for _, b := range fn.Blocks {
		for _, in := range b.Instrs {
			call, ok := in.(*ssa.Call)
			if !ok {
				continue
			}
			name := calleeName(&call.Call)
			if !whereQueryNames.MatchString(name) {
				continue
			}
			args := call.Call.Args
			qi := 2
			if !strings.HasSuffix(name, "Context") {
				qi = 1
			}
			if len(args) <= qi {
				continue
			}
			pos := p.fset.Position(call.Pos())
			where := fmt.Sprintf("%s:%d", shortFile(pos.Filename), pos.Line)
			qs := constStrings(args[qi], 0)
			if qs == nil {
				continue
			}
			match := false
			for _, q := range qs {
				if strings.Contains(normSQL(q), normSQL(wc.Contains)) {
					match = true
				}
			}
			if !match {
				continue
			}
			for vi, q := range qs {
				found++
				oname := fmt.Sprintf("%s.where.%s", wc.Function, wc.Name)
				if len(qs) > 1 {
					oname = fmt.Sprintf("%s.%d", oname, vi+1)
				}
				if strings.Contains(q, dynTail) {
					undecided = append(undecided, fmt.Sprintf("%s (%s): the SQL text has a computed tail", oname, where))
					continue
				}
				wt, ok := whereClause(q)
				res := &FuncResult{Key: wc.Function}
				ctx := newCtx()
				res.Ctx = ctx
				g := newGen(p, anyFn, nil, ctx)
				g.fnKey = wc.Function
				g.entry = State{}
				g.fc = &FuncContract{}
				if !ok {
					g.obls = append(g.obls, &Obligation{Name: oname, Kind: "template", Fn: wc.Function, Desc: "statement has no WHERE clause — " + strings.Join(strings.Fields(q), " "),
						Pos: where, NAssume: len(ctx.assumes), Reach: "true", Cond: "false", ctx: ctx})
					res.Obligations = g.obls
					results = append(results, res)
					continue
				}
				pr := &whereParser{toks: wt}
				tree := pr.parseOr()
				if pr.err != "" || pr.i != len(wt) {
					undecided = append(undecided, fmt.Sprintf("%s (%s): WHERE clause not understood", oname, where))
					continue
				}
				atoms := map[string]string{}
				id := func(a string) string {
					if s, ok := atoms[a]; ok {
						return s
					}
					s := fmt.Sprintf("atom%d", len(atoms))
					atoms[a] = s
					return s
				}
				var reqs []string
				for _, r := range wc.Requires {
					reqs = append(reqs, id(normAtom(sqlTokens(r)))+"_T")
				}
				trw := tree.tr(id)
				var names []string
				for _, s := range atoms {
					names = append(names, s)
				}
				sort.Strings(names)
				for _, s := range names {
					ctx.declareOnce("where:"+s, fmt.Sprintf("(declare-const %s_T Bool)\n(declare-const %s_F Bool)\n(assert (not (and %s_T %s_F)))", s, s, s, s))
				}
				cond := implies(trw, and(reqs...))
				g.obligeClause("template", oname, Clause{Label: "where", Src: fmt.Sprintf("WHERE %s is TRUE ==> %s", tree.String(), strings.Join(wc.Requires, " AND ")),
					File: pos.Filename, Line: pos.Line}, "true", cond)
				res.Obligations = g.obls
				res.Unsupported = g.unsupported
				results = append(results, res)
			}
		}
	}
	if found == 0 {
		undecided = append(undecided, fmt.Sprintf("where %s: no constant SQL containing %q found in %s (contract-stale)", wc.Name, wc.Contains, wc.Function))
	}
	return results, undecided
}
