package main

// K6b — guarded state-machine updates in SQL.
//
// Where a property's mechanism is "rows change state only along documented transitions" and the
// transitions are SQL UPDATE statements with a `state = ?` / `state IN (...)` guard, the statements are
// extracted from the real Exec/ExecContext calls in the SSA on every run: the constant SQL text, the
// positional parameters bound to the state column in SET and in WHERE, and the constants passed for
// them. The obligation per statement is that every (from, to) pair it can perform satisfies the
// relation written in the contract file (a `pure func allowed(from string, to string) bool`), discharged
// by the solver like any lemma. A statement that assigns the state column without a state guard, binds
// a non-constant state, or has a shape the recogniser does not know is reported, never passed.
//
// What this drops: the SQL engine's semantics of UPDATE … WHERE (assumed: a row is updated only if the
// whole WHERE is TRUE), other predicates of the WHERE (they only narrow the set of rows), DELETEs, and
// INSERTs (checked only for "never overwrite an existing row": OR IGNORE / ON CONFLICT DO NOTHING).

import (
	"fmt"
	"go/constant"
	"go/types"
	"regexp"
	"sort"
	"strings"

	"golang.org/x/tools/go/ssa"
)

type TransitionCheck struct {
	Name       string `json:"name"`
	PkgSuffix  string `json:"package_suffix"` // e.g. "internal/edgesync"
	Table      string `json:"table"`
	Column     string `json:"column"`
	Allowed    string `json:"allowed"`     // pure func (from string, to string) bool in the contract file
	MinUpdates int    `json:"min_updates"` // vacuity guard: at least this many state-assigning UPDATEs must be found
}

type sqlTok struct {
	s     string // upper-cased token text (identifiers, keywords, punctuation, "?" or 'literal' kept verbatim)
	param int    // for "?": its 0-based position among the statement's parameters, else -1
	depth int    // parenthesis depth before the token
}

func sqlTokens(q string) []sqlTok {
	var out []sqlTok
	depth, np := 0, 0
	i := 0
	for i < len(q) {
		c := q[i]
		switch {
		case c == ' ' || c == '\t' || c == '\n' || c == '\r':
			i++
		case c == '\'':
			j := i + 1
			for j < len(q) {
				if q[j] == '\'' {
					if j+1 < len(q) && q[j+1] == '\'' {
						j += 2
						continue
					}
					break
				}
				j++
			}
			if j >= len(q) {
				j = len(q) - 1
			}
			out = append(out, sqlTok{s: q[i : j+1], param: -1, depth: depth})
			i = j + 1
		case c == '?':
			out = append(out, sqlTok{s: "?", param: np, depth: depth})
			np++
			i++
		case c == '(':
			out = append(out, sqlTok{s: "(", param: -1, depth: depth})
			depth++
			i++
		case c == ')':
			depth--
			out = append(out, sqlTok{s: ")", param: -1, depth: depth})
			i++
		case isIdentByte(c):
			j := i
			for j < len(q) && isIdentByte(q[j]) {
				j++
			}
			out = append(out, sqlTok{s: strings.ToUpper(q[i:j]), param: -1, depth: depth})
			i = j
		default:
			// operators: group >=, <=, <>, !=, ||
			j := i + 1
			if j < len(q) && strings.ContainsRune("=<>|", rune(q[j])) && strings.ContainsRune("<>!|=", rune(c)) {
				j++
			}
			out = append(out, sqlTok{s: q[i:j], param: -1, depth: depth})
			i = j
		}
	}
	return out
}

func isIdentByte(c byte) bool {
	return c == '_' || c == '.' || (c >= '0' && c <= '9') || (c >= 'a' && c <= 'z') || (c >= 'A' && c <= 'Z')
}

// stateRef is one state value named by a statement: a parameter position or a literal.
type stateRef struct {
	param int
	lit   string
}

type updateShape struct {
	assigns bool       // the statement assigns the column
	to      []stateRef // values the column may be set to
	from    []stateRef // values the WHERE requires the column to have
	guarded bool
	problem string
}

func splitTop(toks []sqlTok, base int, sep string) [][]sqlTok {
	var out [][]sqlTok
	cur := []sqlTok{}
	caseDepth := 0
	for _, t := range toks {
		if t.s == "CASE" {
			caseDepth++
		}
		if t.s == "END" && caseDepth > 0 {
			caseDepth--
		}
		if t.depth == base && caseDepth == 0 && t.s == sep {
			out = append(out, cur)
			cur = []sqlTok{}
			continue
		}
		cur = append(cur, t)
	}
	return append(out, cur)
}

func tokRef(t sqlTok) (stateRef, bool) {
	if t.s == "?" {
		return stateRef{param: t.param}, true
	}
	if strings.HasPrefix(t.s, "'") && strings.HasSuffix(t.s, "'") && len(t.s) >= 2 {
		return stateRef{param: -1, lit: strings.ReplaceAll(t.s[1:len(t.s)-1], "''", "'")}, true
	}
	return stateRef{}, false
}

// stateAtoms returns the values a conjunction (tokens at paren depth `base`) requires of the column, ok=false
// when the conjunction does not constrain it.
func stateAtoms(toks []sqlTok, base int, col string) ([]stateRef, bool) {
	for _, cj := range splitTop(toks, base, "AND") {
		if len(cj) >= 3 && cj[0].s == col && cj[1].s == "=" && len(cj) == 3 {
			if r, ok := tokRef(cj[2]); ok {
				return []stateRef{r}, true
			}
		}
		if len(cj) >= 5 && cj[0].s == col && cj[1].s == "IN" && cj[2].s == "(" && cj[len(cj)-1].s == ")" {
			var refs []stateRef
			good := true
			for _, part := range splitTop(cj[3:len(cj)-1], base+1, ",") {
				if len(part) != 1 {
					good = false
					break
				}
				r, ok := tokRef(part[0])
				if !ok {
					good = false
					break
				}
				refs = append(refs, r)
			}
			if good && len(refs) > 0 {
				return refs, true
			}
		}
		// ( d1 OR d2 … ) where every disjunct constrains the column
		if len(cj) >= 3 && cj[0].s == "(" && cj[len(cj)-1].s == ")" && cj[0].depth == base {
			inner := cj[1 : len(cj)-1]
			var refs []stateRef
			all := true
			for _, dj := range splitTop(inner, base+1, "OR") {
				d, dbase := dj, base+1
				if len(d) >= 2 && d[0].s == "(" && d[len(d)-1].s == ")" {
					d, dbase = d[1:len(d)-1], base+2
				}
				r, ok := stateAtoms(d, dbase, col)
				if !ok {
					all = false
					break
				}
				refs = append(refs, r...)
			}
			if all && len(refs) > 0 {
				return refs, true
			}
		}
	}
	return nil, false
}

func parseUpdate(q, table, col string) updateShape {
	toks := sqlTokens(q)
	T, C := strings.ToUpper(table), strings.ToUpper(col)
	var sh updateShape
	// UPDATE <table> SET … [WHERE …]
	start := -1
	for i := 0; i+2 < len(toks); i++ {
		if toks[i].s == "UPDATE" && toks[i+1].s == T && toks[i+2].s == "SET" && toks[i].depth == 0 {
			start = i + 3
			break
		}
	}
	if start < 0 {
		sh.problem = "not an UPDATE " + table + " SET … statement"
		return sh
	}
	whereAt := len(toks)
	for i := start; i < len(toks); i++ {
		if toks[i].s == "WHERE" && toks[i].depth == 0 {
			whereAt = i
			break
		}
	}
	for _, as := range splitTop(toks[start:whereAt], 0, ",") {
		if len(as) < 3 || as[0].s != C || as[1].s != "=" {
			continue
		}
		sh.assigns = true
		rhs := as[2:]
		if len(rhs) == 1 {
			if r, ok := tokRef(rhs[0]); ok {
				sh.to = append(sh.to, r)
				continue
			}
		}
		if rhs[0].s == "CASE" && rhs[len(rhs)-1].s == "END" {
			okCase := true
			n := 0
			for i, t := range rhs {
				if t.s == "THEN" || t.s == "ELSE" {
					if i+1 < len(rhs) {
						if r, ok := tokRef(rhs[i+1]); ok && (i+2 >= len(rhs) || rhs[i+2].s == "WHEN" || rhs[i+2].s == "ELSE" || rhs[i+2].s == "END") {
							sh.to = append(sh.to, r)
							n++
							continue
						}
					}
					okCase = false
				}
			}
			if okCase && n > 0 {
				continue
			}
		}
		sh.problem = "unrecognised expression assigned to " + col
		return sh
	}
	if !sh.assigns {
		return sh
	}
	if whereAt < len(toks) {
		if refs, ok := stateAtoms(toks[whereAt+1:], 0, C); ok {
			sh.from, sh.guarded = refs, true
		}
	}
	return sh
}

const dynTail = "\x00<computed>"

var execNames = regexp.MustCompile(`^\(\*sql\.(DB|Tx|Conn)\)\.(ExecContext|Exec)$`)

// constStrings: the constant strings an SSA string value may take (base constant first), or nil.
func constStrings(v ssa.Value, depth int) []string {
	if depth > 6 {
		return nil
	}
	switch x := v.(type) {
	case *ssa.Const:
		if x.Value != nil && x.Value.Kind() == constant.String {
			return []string{constant.StringVal(x.Value)}
		}
	case *ssa.Phi:
		var out []string
		for _, e := range x.Edges {
			s := constStrings(e, depth+1)
			if s == nil {
				return nil
			}
			out = append(out, s...)
		}
		return out
	case *ssa.UnOp:
		// element of a literal []string{…} of constants (e.g. `for _, q := range []string{…}`)
		ia, ok := x.X.(*ssa.IndexAddr)
		if !ok {
			return nil
		}
		base := ia.X
		if sl, ok := base.(*ssa.Slice); ok {
			base = sl.X
		}
		alloc, ok := base.(*ssa.Alloc)
		if !ok {
			return nil
		}
		var out []string
		for _, ref := range *alloc.Referrers() {
			switch r := ref.(type) {
			case *ssa.IndexAddr:
				for _, r2 := range *r.Referrers() {
					if st, ok := r2.(*ssa.Store); ok && st.Addr == r {
						c := constStrings(st.Val, depth+1)
						if c == nil {
							return nil
						}
						out = append(out, c...)
					}
				}
			case *ssa.Slice:
			default:
				return nil
			}
		}
		return out
	case *ssa.BinOp:
		l, r := constStrings(x.X, depth+1), constStrings(x.Y, depth+1)
		if l != nil && r == nil {
			// constant text followed by a computed tail (e.g. a generated `IN (?,?,…)` list): the statement kind
			// and table are decided by the constant head; the tail is marked as not constant
			var out []string
			for _, a := range l {
				out = append(out, a+dynTail)
			}
			return out
		}
		if l == nil || r == nil {
			return nil
		}
		var out []string
		for _, a := range l {
			for _, b := range r {
				out = append(out, a+b)
			}
		}
		return out
	}
	return nil
}

// constOfArg: the constant string an interface-typed argument carries (string(StateX) conversions of constants).
func constOfArg(v ssa.Value) (string, bool) {
	for i := 0; i < 6; i++ {
		switch x := v.(type) {
		case *ssa.MakeInterface:
			v = x.X
		case *ssa.ChangeType:
			v = x.X
		case *ssa.Convert:
			v = x.X
		case *ssa.Const:
			if x.Value != nil && x.Value.Kind() == constant.String {
				return constant.StringVal(x.Value), true
			}
			return "", false
		default:
			return "", false
		}
	}
	return "", false
}

// variadicElem resolves element i of a variadic []any argument built from an array literal, possibly extended
// by append (appended elements come after the literal's).
func variadicElem(v ssa.Value, i int, depth int) (ssa.Value, bool) {
	if depth > 6 {
		return nil, false
	}
	switch x := v.(type) {
	case *ssa.Slice:
		alloc, ok := x.X.(*ssa.Alloc)
		if !ok || x.Low != nil {
			return nil, false
		}
		at, ok := alloc.Type().(*types.Pointer).Elem().Underlying().(*types.Array)
		if !ok || int64(i) >= at.Len() {
			return nil, false
		}
		var found ssa.Value
		for _, ref := range *alloc.Referrers() {
			ia, ok := ref.(*ssa.IndexAddr)
			if !ok {
				continue
			}
			c, ok := ia.Index.(*ssa.Const)
			if !ok || c.Int64() != int64(i) {
				continue
			}
			for _, r2 := range *ia.Referrers() {
				if st, ok := r2.(*ssa.Store); ok && st.Addr == ia {
					if found != nil {
						return nil, false
					}
					found = st.Val
				}
			}
		}
		return found, found != nil
	case *ssa.Phi:
		var val ssa.Value
		for _, e := range x.Edges {
			r, ok := variadicElem(e, i, depth+1)
			if !ok {
				return nil, false
			}
			if val == nil {
				val = r
			} else if a, okA := constOfArg(val); okA {
				if b, okB := constOfArg(r); !okB || a != b {
					return nil, false
				}
			} else if val != r {
				return nil, false
			}
		}
		return val, val != nil
	case *ssa.Call:
		if b, ok := x.Call.Value.(*ssa.Builtin); ok && b.Name() == "append" && len(x.Call.Args) > 0 {
			return variadicElem(x.Call.Args[0], i, depth+1)
		}
	}
	return nil, false
}

func (p *Program) transitionObligations(tc TransitionCheck, anyFn *ssa.Function) ([]*FuncResult, []string) {
	var results []*FuncResult
	var undecided []string
	if _, ok := p.cs.SpecFuncs[tc.Allowed]; !ok {
		return nil, []string{fmt.Sprintf("transitions %s: relation %s not found in the contract files (contract-stale)", tc.Name, tc.Allowed)}
	}
	var keys []string
	for k, fn := range p.funcs {
		if fn.Pkg != nil && strings.HasSuffix(fn.Pkg.Pkg.Path(), tc.PkgSuffix) && len(fn.Blocks) > 0 {
			keys = append(keys, k)
		}
	}
	sort.Strings(keys)
	updates := 0
	for _, k := range keys {
		fn := p.funcs[k]
		nth := 0
		for _, b := range fn.Blocks {
			for _, in := range b.Instrs {
				call, ok := in.(*ssa.Call)
				if !ok {
					continue
				}
				name := calleeName(&call.Call)
				if !execNames.MatchString(name) {
					continue
				}
				args := call.Call.Args
				qi := 2
				if strings.HasSuffix(name, ".Exec") {
					qi = 1
				}
				if len(args) <= qi {
					continue
				}
				pos := p.fset.Position(call.Pos())
				where := fmt.Sprintf("%s:%d", shortFile(pos.Filename), pos.Line)
				qs := constStrings(args[qi], 0)
				if qs == nil {
					undecided = append(undecided, fmt.Sprintf("transitions %s: %s (%s) executes SQL that is not a compile-time constant", tc.Name, k, where))
					continue
				}
				// the statements this call can execute: any that touches the table is examined
				touches := false
				for _, q := range qs {
					if strings.Contains(strings.ToUpper(q), strings.ToUpper(tc.Table)) {
						touches = true
					}
				}
				if !touches {
					continue
				}
				if regexp.MustCompile(`(?i)^\s*(ALTER|CREATE)\s`).MatchString(qs[0]) {
					continue // schema statements do not change rows
				}
				if strings.Contains(strings.Join(qs, ""), dynTail) {
					undecided = append(undecided, fmt.Sprintf("transitions %s: %s (%s) builds SQL on %s with a computed tail", tc.Name, k, where, tc.Table))
					continue
				}
				if regexp.MustCompile(`(?i)\bINSERT\b`).MatchString(qs[0]) {
					if !regexp.MustCompile(`(?i)(OR\s+IGNORE|DO\s+NOTHING)`).MatchString(qs[0]) {
						undecided = append(undecided, fmt.Sprintf("transitions %s: %s (%s) inserts into %s and may overwrite an existing row", tc.Name, k, where, tc.Table))
					}
					continue
				}
				if !regexp.MustCompile(`(?i)\bUPDATE\s+` + regexp.QuoteMeta(tc.Table) + `\b`).MatchString(qs[0]) {
					continue
				}
				// every variant of the text must agree on the shape and extend the base text
				sh := parseUpdate(qs[0], tc.Table, tc.Column)
				for _, alt := range qs[1:] {
					if !strings.HasPrefix(alt, qs[0]) {
						sh.problem = "variants of the SQL text do not share the base text"
					}
					s2 := parseUpdate(alt, tc.Table, tc.Column)
					if s2.problem != "" || s2.guarded != sh.guarded || len(s2.to) != len(sh.to) || len(s2.from) != len(sh.from) {
						sh.problem = "variants of the SQL text differ in their state clauses"
					}
				}
				if !sh.assigns && sh.problem == "" {
					continue
				}
				nth++
				updates++
				oname := fmt.Sprintf("%s.transition.%d", k, nth)
				res := &FuncResult{Key: k}
				ctx := newCtx()
				res.Ctx = ctx
				g := newGen(p, anyFn, nil, ctx)
				g.fnKey = k
				g.entry = State{}
				fail := func(why string) {
					g.obls = append(g.obls, &Obligation{Name: oname, Kind: "template", Fn: k, Desc: why + " — " + strings.Join(strings.Fields(qs[0]), " "),
						Pos: where, NAssume: len(ctx.assumes), Reach: "true", Cond: "false", ctx: ctx})
					res.Obligations = g.obls
					results = append(results, res)
				}
				if sh.problem != "" {
					undecided = append(undecided, fmt.Sprintf("%s (%s): %s", oname, where, sh.problem))
					continue
				}
				if !sh.guarded {
					fail("UPDATE assigns " + tc.Column + " without a guard on the current " + tc.Column)
					continue
				}
				resolve := func(r stateRef) (string, bool) {
					if r.param < 0 {
						return r.lit, true
					}
					v, ok := variadicElem(args[qi+1], r.param, 0)
					if !ok {
						return "", false
					}
					return constOfArg(v)
				}
				var froms, tos []string
				bad := ""
				for _, r := range sh.from {
					s, ok := resolve(r)
					if !ok {
						bad = fmt.Sprintf("guard parameter %d is not a constant state", r.param+1)
					}
					froms = append(froms, s)
				}
				for _, r := range sh.to {
					s, ok := resolve(r)
					if !ok {
						bad = fmt.Sprintf("assigned parameter %d is not a constant state", r.param+1)
					}
					tos = append(tos, s)
				}
				if bad != "" {
					undecided = append(undecided, fmt.Sprintf("%s (%s): %s", oname, where, bad))
					continue
				}
				var conj []string
				for _, f := range froms {
					for _, t := range tos {
						conj = append(conj, fmt.Sprintf("%s(%q, %q)", tc.Allowed, f, t))
					}
				}
				src := strings.Join(conj, " && ")
				ex, err := parseSpecExpr(src)
				if err != nil {
					undecided = append(undecided, fmt.Sprintf("%s: %v", oname, err))
					continue
				}
				t, err := g.elabBool(ex, g.newEnv(State{}, State{}))
				if err != nil {
					undecided = append(undecided, fmt.Sprintf("%s: %v", oname, err))
					continue
				}
				g.fc = &FuncContract{}
				g.obligeClause("template", oname, Clause{Label: "transition", Src: fmt.Sprintf("{%s} -> {%s} allowed by %s", strings.Join(froms, ","), strings.Join(tos, ","), tc.Allowed),
					File: pos.Filename, Line: pos.Line}, "true", t)
				res.Obligations = g.obls
				res.Unsupported = g.unsupported
				results = append(results, res)
			}
		}
	}
	if updates < tc.MinUpdates {
		undecided = append(undecided, fmt.Sprintf("transitions %s: only %d state-assigning UPDATE statements on %s found, expected at least %d (contract-stale)", tc.Name, updates, tc.Table, tc.MinUpdates))
	}
	return results, undecided
}
