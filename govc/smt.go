package main

import (
	"fmt"
	"go/types"
	"math/big"
	"sort"
	"strconv"
	"strings"
	"sync"
)

// Ctx accumulates SMT declarations for one function's verification conditions.
type Ctx struct {
	sortDecls []string // datatype / sort declarations, dependency ordered
	sortSeen  map[string]bool
	decls     []string // declare-fun / declare-const / global axioms
	declSeen  map[string]bool
	assumes   []string // ordered path-gated assumptions and definitions
	nfresh    int
	strLits   map[string]string // literal → const name
	containsNeedles map[string]bool // literals used as the needle of contains(_, lit)
	strOrder  []string
	structOf  map[string]*types.Struct // sort → struct type
	structNm  map[string]string        // sort → display name
	structGo  map[string]types.Type    // sort → Go type (to re-declare the datatype in another Ctx)
	compSort  map[string]string        // heap component → sort
	ifaceTags map[string]int           // concrete type sort/name → tag
	ifaceBox  map[string]string        // payload sort → constructor name
	notes     map[string]int           // dropped/abstracted constructs, counted
	assumed   map[string]bool          // assumptions used (external contracts etc.)
	needStrExt bool
	mu           sync.Mutex
	declaredSyms map[string]bool
	assumeSyms   []map[string]bool
}

func newCtx() *Ctx {
	return &Ctx{sortSeen: map[string]bool{}, declSeen: map[string]bool{}, strLits: map[string]string{}, containsNeedles: map[string]bool{},
		structOf: map[string]*types.Struct{}, structNm: map[string]string{}, compSort: map[string]string{},
		ifaceTags: map[string]int{}, ifaceBox: map[string]string{}, notes: map[string]int{}, assumed: map[string]bool{}}
}

func (c *Ctx) note(s string)   { c.notes[s]++ }
func (c *Ctx) assume(s string) { c.assumes = append(c.assumes, s) }

func (c *Ctx) fresh(prefix, sort string) string {
	c.nfresh++
	n := fmt.Sprintf("%s!%d", sanitize(prefix), c.nfresh)
	c.decls = append(c.decls, fmt.Sprintf("(declare-const %s %s)", n, sort))
	return n
}

func (c *Ctx) declareOnce(key, text string) {
	if c.declSeen[key] {
		return
	}
	c.declSeen[key] = true
	c.decls = append(c.decls, text)
}

func sanitize(s string) string {
	var b strings.Builder
	for _, r := range s {
		switch {
		case r >= 'a' && r <= 'z', r >= 'A' && r <= 'Z', r >= '0' && r <= '9', r == '_', r == '.', r == '$':
			b.WriteRune(r)
		case r == '*':
			b.WriteString("P")
		case r == '[':
			b.WriteString("L")
		case r == ']':
			b.WriteString("J")
		default:
			b.WriteString("_")
		}
	}
	return b.String()
}

const preambleBase = `(set-logic ALL)
(declare-sort Str 0)
(declare-fun slen (Str) Int)
(declare-fun sat (Str Int) Int)
(declare-const str_empty Str)
(assert (= (slen str_empty) 0))
(declare-datatypes ((Slice 0)) (((mk-slice (s.ref Int) (s.off Int) (s.len Int) (s.cap Int)))))
(declare-datatypes ((Iface 0)) (((iface-nil) (iface-mk (i.tag Int) (i.val Int)))))
(define-fun tdiv ((a Int) (b Int)) Int (ite (>= a 0) (ite (> b 0) (div a b) (- (div a (- b)))) (ite (> b 0) (- (div (- a) b)) (div (- a) (- b)))))
(define-fun tmod ((a Int) (b Int)) Int (- a (* b (tdiv a b))))
(define-fun wrap_s ((x Int) (h Int)) Int (- (mod (+ x h) (* 2 h)) h))
(define-fun wrap_u ((x Int) (m Int)) Int (mod x m))
(define-fun wadd_s ((x Int) (h Int)) Int (ite (>= x h) (- x (* 2 h)) (ite (< x (- h)) (+ x (* 2 h)) x)))
(define-fun wadd_u ((x Int) (m Int)) Int (ite (>= x m) (- x m) (ite (< x 0) (+ x m) x)))
(define-sort Float64 () (_ FloatingPoint 11 53))
(define-sort Float32 () (_ FloatingPoint 8 24))
`

// Native-string variant of the preamble (model finding): Str is SMT-LIB String, one code point per byte.
const preambleNativeStr = `(define-sort Str () String)
(define-fun slen ((s String)) Int (str.len s))
(define-fun sat ((s String) (i Int)) Int (str.to_code (str.at s i)))
(define-fun str_empty () String "")
`

var nativeBlocks = map[string]string{
	"slen":    "",
	"ssub":    "(define-fun ssub ((s String) (a Int) (b Int)) String (str.substr s a (- b a)))\n",
	"sconcat": "(define-fun sconcat ((a String) (b String)) String (str.++ a b))\n",
	"str_lt":  "(define-fun str_lt ((a String) (b String)) Bool (str.< a b))\n",
	"scontains": "(define-fun scontains ((a String) (b String)) Bool (str.contains a b))\n",
}

// Axiom blocks are included only when their trigger symbol occurs in the query, so that
// quantifier-free obligations stay quantifier-free (and satisfiable ones yield models).
var preambleBlocks = []struct{ sym, text string }{
	{"slen", `(assert (forall ((s Str)) (! (>= (slen s) 0) :pattern ((slen s)))))
(assert (forall ((s Str)) (! (=> (= (slen s) 0) (= s str_empty)) :pattern ((slen s)))))
`},
	{"ssub", `(declare-fun ssub (Str Int Int) Str)
(assert (forall ((s Str) (a Int) (b Int)) (! (=> (and (<= 0 a) (<= a b)) (= (slen (ssub s a b)) (- b a))) :pattern ((ssub s a b)))))
(assert (forall ((s Str) (a Int) (b Int) (i Int)) (! (=> (and (<= 0 a) (<= a b) (<= 0 i) (< i (- b a))) (= (sat (ssub s a b) i) (sat s (+ a i)))) :pattern ((sat (ssub s a b) i)))))
`},
	{"sconcat", `(declare-fun sconcat (Str Str) Str)
(assert (forall ((a Str) (b Str)) (! (= (slen (sconcat a b)) (+ (slen a) (slen b))) :pattern ((sconcat a b)))))
(assert (forall ((a Str) (b Str) (i Int)) (! (=> (and (<= 0 i) (< i (+ (slen a) (slen b)))) (= (sat (sconcat a b) i) (ite (< i (slen a)) (sat a i) (sat b (- i (slen a)))))) :pattern ((sat (sconcat a b) i)))))
`},
	{"str_of", `(declare-fun str_of ((Array Int Int) Int Int) Str)
(assert (forall ((a (Array Int Int)) (o Int) (n Int)) (! (=> (>= n 0) (= (slen (str_of a o n)) n)) :pattern ((str_of a o n)))))
(assert (forall ((a (Array Int Int)) (o Int) (n Int) (i Int)) (! (=> (and (<= 0 i) (< i n)) (= (sat (str_of a o n) i) (select a (+ o i)))) :pattern ((sat (str_of a o n) i)))))
`},
	{"bytes_of", `(declare-fun bytes_of (Str) (Array Int Int))
(assert (forall ((s Str) (i Int)) (! (=> (and (<= 0 i) (< i (slen s))) (= (select (bytes_of s) i) (sat s i))) :pattern ((select (bytes_of s) i)))))
`},
	{"str_lt", "(declare-fun str_lt (Str Str) Bool)\n"},
	// scontains(a, b): b occurs in a as a substring. Declared here; the facts used are (i) the truth value for every
	// pair of literals whose needle is used (strLitDecls), (ii) containment survives concatenation (scontainsConcat).
	{"scontains", "(declare-fun scontains (Str Str) Bool)\n(assert (forall ((a Str)) (! (scontains a a) :pattern ((scontains a a)))))\n"},
	{"bit_and", `(declare-fun bit_and (Int Int) Int)
(assert (forall ((a Int) (b Int)) (! (=> (and (>= a 0) (>= b 0)) (and (>= (bit_and a b) 0) (<= (bit_and a b) a) (<= (bit_and a b) b))) :pattern ((bit_and a b)))))
`},
	{"bit_or", `(declare-fun bit_or (Int Int) Int)
(assert (forall ((a Int) (b Int)) (! (=> (and (>= a 0) (>= b 0)) (and (>= (bit_or a b) a) (>= (bit_or a b) b) (<= (bit_or a b) (+ a b)))) :pattern ((bit_or a b)))))
`},
	{"bit_xor", "(declare-fun bit_xor (Int Int) Int)\n"},
}

const scontainsConcat = `(assert (forall ((a Str) (b Str) (x Str)) (! (=> (or (scontains a x) (scontains b x)) (scontains (sconcat a b) x)) :pattern ((scontains (sconcat a b) x)))))
`

const strExtAxiom = `(assert (forall ((a Str) (b Str)) (! (=> (and (= (slen a) (slen b)) (forall ((i Int)) (=> (and (<= 0 i) (< i (slen a))) (= (sat a i) (sat b i))))) (= a b)) :pattern ((slen a) (slen b)))))
`

// ---------------------------------------------------------------- sorts

func isIntKind(b *types.Basic) bool {
	return b.Info()&types.IsInteger != 0
}

// intRange returns (lo, hi) inclusive for a basic integer type.
func intRange(b *types.Basic) (lo, hi *big.Int) {
	bits := 64
	unsigned := b.Info()&types.IsUnsigned != 0
	switch b.Kind() {
	case types.Int8, types.Uint8:
		bits = 8
	case types.Int16, types.Uint16:
		bits = 16
	case types.Int32, types.Uint32:
		bits = 32
	}
	one := big.NewInt(1)
	if unsigned {
		hi = new(big.Int).Sub(new(big.Int).Lsh(one, uint(bits)), one)
		return big.NewInt(0), hi
	}
	hi = new(big.Int).Sub(new(big.Int).Lsh(one, uint(bits-1)), one)
	lo = new(big.Int).Neg(new(big.Int).Lsh(one, uint(bits-1)))
	return lo, hi
}

func smtInt(v *big.Int) string {
	if v.Sign() < 0 {
		return "(- " + new(big.Int).Neg(v).String() + ")"
	}
	return v.String()
}

func smtIntS(s string) string {
	if strings.HasPrefix(s, "-") {
		return "(- " + s[1:] + ")"
	}
	return s
}

// sortOf maps a Go type to an SMT sort, declaring datatypes on demand.
// isTimeTime: time.Time is modelled as an unbounded Int of nanoseconds since the Unix epoch (UTC).
func isTimeTime(t types.Type) bool {
	n, ok := t.(*types.Named)
	return ok && n.Obj().Pkg() != nil && n.Obj().Pkg().Path() == "time" && n.Obj().Name() == "Time"
}

const timeZeroNs = "(- 62135596800000000000)"

func (c *Ctx) sortOf(t types.Type) string {
	if isTimeTime(t) {
		return "Int"
	}
	switch u := t.Underlying().(type) {
	case *types.Basic:
		switch {
		case u.Info()&types.IsBoolean != 0:
			return "Bool"
		case u.Info()&types.IsInteger != 0:
			return "Int"
		case u.Info()&types.IsString != 0:
			return "Str"
		case u.Info()&types.IsFloat != 0:
			if u.Kind() == types.Float32 {
				return "Float32"
			}
			return "Float64"
		case u.Kind() == types.UnsafePointer:
			return "Int"
		case u.Kind() == types.UntypedNil:
			return "Int"
		}
		return "Int"
	case *types.Pointer, *types.Map, *types.Chan, *types.Signature:
		return "Int"
	case *types.Slice:
		return "Slice"
	case *types.Interface:
		return "Iface"
	case *types.Array:
		return "(Array Int " + c.sortOf(u.Elem()) + ")"
	case *types.Struct:
		return c.structSort(t, u)
	case *types.Tuple:
		return c.tupleSort(u)
	}
	return "Int"
}

func (c *Ctx) structSort(t types.Type, u *types.Struct) string {
	name := "S_" + sanitize(shortType(t))
	if _, ok := t.(*types.Struct); ok {
		name = "S_anon_" + sanitize(fmt.Sprintf("%x", hashStr(u.String())))
	}
	// types of a Go-internal package can share their short name with a public one (internal/sync.Mutex
	// vs sync.Mutex): they always carry a hash of the full path, so names do not depend on visit order
	if n, ok := t.(*types.Named); ok && n.Obj().Pkg() != nil {
		if pp := n.Obj().Pkg().Path(); (strings.HasPrefix(pp, "internal/") || strings.Contains(pp, "/internal/")) && !strings.HasPrefix(pp, modulePrefix) {
			name += fmt.Sprintf("_%x", hashStr(t.String()))
		}
	}
	if prev, ok := c.structOf[name]; ok && prev != u && !types.Identical(prev, u) {
		name += fmt.Sprintf("_%x", hashStr(t.String()))
	}
	if c.sortSeen[name] {
		return name
	}
	c.sortSeen[name] = true
	c.structOf[name] = u
	if c.structGo == nil {
		c.structGo = map[string]types.Type{}
	}
	c.structGo[name] = t
	c.structNm[name] = shortType(t)
	var fields []string
	for i := 0; i < u.NumFields(); i++ {
		fs := c.sortOf(u.Field(i).Type())
		fields = append(fields, fmt.Sprintf("(%s..%s %s)", name, fieldName(u, i), fs))
	}
	if len(fields) == 0 {
		fields = append(fields, fmt.Sprintf("(%s..__unit Int)", name))
	}
	c.sortDecls = append(c.sortDecls, fmt.Sprintf("(declare-datatypes ((%s 0)) (((mk-%s %s))))", name, name, strings.Join(fields, " ")))
	return name
}

// fieldName: accessor-safe field name (blank fields are numbered).
func fieldName(st *types.Struct, i int) string {
	n := st.Field(i).Name()
	if n == "_" {
		return fmt.Sprintf("blank%d", i)
	}
	return sanitize(n)
}

func (c *Ctx) tupleSort(u *types.Tuple) string {
	var ss []string
	for i := 0; i < u.Len(); i++ {
		ss = append(ss, c.sortOf(u.At(i).Type()))
	}
	return c.tupleSortOf(ss)
}

func (c *Ctx) tupleSortOf(ss []string) string {
	name := "T_" + sanitize(strings.Join(ss, "_"))
	if c.sortSeen[name] {
		return name
	}
	c.sortSeen[name] = true
	var fields []string
	for i, s := range ss {
		fields = append(fields, fmt.Sprintf("(%s..%d %s)", name, i, s))
	}
	if len(fields) == 0 {
		fields = append(fields, fmt.Sprintf("(%s..unit Int)", name))
	}
	c.sortDecls = append(c.sortDecls, fmt.Sprintf("(declare-datatypes ((%s 0)) (((mk-%s %s))))", name, name, strings.Join(fields, " ")))
	return name
}

func hashStr(s string) uint32 {
	var h uint32 = 2166136261
	for i := 0; i < len(s); i++ {
		h ^= uint32(s[i])
		h *= 16777619
	}
	return h
}

// shortType renders a type with package names (not paths).
func shortType(t types.Type) string {
	return types.TypeString(t, func(p *types.Package) string { return p.Name() })
}

// zero returns the zero value term of a Go type.
func (c *Ctx) zero(t types.Type) string {
	if isTimeTime(t) {
		return timeZeroNs
	}
	s := c.sortOf(t)
	switch u := t.Underlying().(type) {
	case *types.Struct:
		var fs []string
		for i := 0; i < u.NumFields(); i++ {
			fs = append(fs, c.zero(u.Field(i).Type()))
		}
		if len(fs) == 0 {
			fs = []string{"0"}
		}
		return "(mk-" + s + " " + strings.Join(fs, " ") + ")"
	case *types.Array:
		return "((as const " + s + ") " + c.zero(u.Elem()) + ")"
	}
	return c.zeroOfSort(s)
}

func (c *Ctx) zeroOfSort(s string) string {
	switch s {
	case "Int":
		return "0"
	case "Bool":
		return "false"
	case "Str":
		return "str_empty"
	case "Slice":
		return "(mk-slice 0 0 0 0)"
	case "Iface":
		return "iface-nil"
	case "Float64":
		return "(_ +zero 11 53)"
	case "Float32":
		return "(_ +zero 8 24)"
	}
	if st, ok := c.structOf[s]; ok {
		var fs []string
		for i := 0; i < st.NumFields(); i++ {
			fs = append(fs, c.zero(st.Field(i).Type()))
		}
		if len(fs) == 0 {
			fs = []string{"0"}
		}
		return "(mk-" + s + " " + strings.Join(fs, " ") + ")"
	}
	if strings.HasPrefix(s, "(Array Int ") {
		inner := s[len("(Array Int ") : len(s)-1]
		return "((as const " + s + ") " + c.zeroOfSort(inner) + ")"
	}
	// tuples and unknown sorts: fresh unconstrained value
	return c.fresh("zero", s)
}

// strLit returns the constant naming a string literal.
func (c *Ctx) strLit(s string) string {
	if s == "" {
		return "str_empty"
	}
	if n, ok := c.strLits[s]; ok {
		return n
	}
	n := fmt.Sprintf("strlit!%d", len(c.strLits))
	c.strLits[s] = n
	c.strOrder = append(c.strOrder, s)
	return n
}

const strLitCharCap = 96

// smtStringLit renders a Go string (bytes) as an SMT-LIB string literal, one code point per byte.
func smtStringLit(s string) string {
	var b strings.Builder
	b.WriteByte('"')
	for i := 0; i < len(s); i++ {
		c := s[i]
		switch {
		case c == '"':
			b.WriteString(`""`)
		case c >= 0x20 && c < 0x7f && c != '\\':
			b.WriteByte(c)
		default:
			fmt.Fprintf(&b, "\\u{%x}", c)
		}
	}
	b.WriteByte('"')
	return b.String()
}

// strLitDeclsNative: the literals as native SMT-LIB strings (model-finding variant).
func (c *Ctx) strLitDeclsNative() string {
	var b strings.Builder
	for _, s := range c.strOrder {
		fmt.Fprintf(&b, "(define-fun %s () String %s)\n", c.strLits[s], smtStringLit(s))
	}
	return b.String()
}

func (c *Ctx) strLitDecls() string {
	var b strings.Builder
	for _, s := range c.strOrder {
		n := c.strLits[s]
		fmt.Fprintf(&b, "(declare-const %s Str)\n(assert (= (slen %s) %d))\n", n, n, len(s))
		lim := len(s)
		if lim > strLitCharCap {
			lim = strLitCharCap
		}
		if lim > 0 {
			b.WriteString("(assert (and")
			for i := 0; i < lim; i++ {
				fmt.Fprintf(&b, " (= (sat %s %d) %d)", n, i, s[i])
			}
			b.WriteString("))\n")
		}
	}
	for _, needle := range c.strOrder {
		if !c.containsNeedles[needle] {
			continue
		}
		for _, hay := range c.strOrder {
			fmt.Fprintf(&b, "(assert (= (scontains %s %s) %v))\n", c.strLits[hay], c.strLits[needle], strings.Contains(hay, needle))
		}
		fmt.Fprintf(&b, "(assert (not (scontains str_empty %s)))\n", c.strLits[needle])
	}
	if len(c.strOrder) > 1 {
		// literals longer than the cap could coincide on the modelled prefix; they are distinct texts
		var long []string
		for _, s := range c.strOrder {
			if len(s) > strLitCharCap {
				long = append(long, c.strLits[s])
			}
		}
		if len(long) > 1 {
			b.WriteString("(assert (distinct " + strings.Join(long, " ") + "))\n")
		}
	}
	return b.String()
}

// ifaceTag returns a numeric type tag for a concrete type stored in an interface.
func (c *Ctx) ifaceTag(t types.Type) int {
	k := shortType(t)
	if v, ok := c.ifaceTags[k]; ok {
		return v
	}
	v := len(c.ifaceTags) + 1
	c.ifaceTags[k] = v
	return v
}

// box/unbox functions between a payload sort and the Int payload slot of Iface.
func (c *Ctx) boxFn(sort string) (box, unbox string) {
	key := sanitize(sort)
	box, unbox = "box_"+key, "unbox_"+key
	if sort == "Int" {
		return "", ""
	}
	c.declareOnce("box:"+key, fmt.Sprintf("(declare-fun %s (%s) Int)\n(declare-fun %s (Int) %s)\n(assert (forall ((x %s)) (! (= (%s (%s x)) x) :pattern ((%s x)))))",
		box, sort, unbox, sort, sort, unbox, box, box))
	return
}

// comp registers a heap component and returns its name.
func (c *Ctx) comp(name, sort string) string {
	if _, ok := c.compSort[name]; !ok {
		c.compSort[name] = sort
	}
	return name
}

func (c *Ctx) fieldComp(structSort string, st *types.Struct, i int) string {
	fs := c.sortOf(st.Field(i).Type())
	return c.comp("F_"+strings.TrimPrefix(structSort, "S_")+"_"+fieldName(st, i), "(Array Int "+fs+")")
}
func (c *Ctx) elemComp(elemSort string) string {
	return c.comp("E_"+sanitize(elemSort), "(Array Int (Array Int "+elemSort+"))")
}
func (c *Ctx) cellComp(sort string) string {
	return c.comp("C_"+sanitize(sort), "(Array Int "+sort+")")
}
// mapCompsT: heap components of a Go map type. Components are per Go type (not per SMT sort), so maps of
// different types can never alias even when their keys and values have the same sorts.
func (c *Ctx) mapCompsT(t types.Type) (dom, val, size string) {
	mt := t.Underlying().(*types.Map)
	return c.mapCompsNamed(sanitize(shortType(mt)), c.sortOf(mt.Key()), c.sortOf(mt.Elem()))
}

func (c *Ctx) mapCompsNamed(base, k, v string) (dom, val, size string) {
	dom = c.comp("MD_"+base, "(Array Int (Array "+k+" Bool))")
	val = c.comp("MV_"+base, "(Array Int (Array "+k+" "+v+"))")
	size = c.comp("MS_"+base, "(Array Int Int)")
	return
}

func (c *Ctx) sortedComps() []string {
	var ks []string
	for k := range c.compSort {
		ks = append(ks, k)
	}
	sort.Strings(ks)
	return ks
}

func and(xs ...string) string {
	var ys []string
	for _, x := range xs {
		if x == "true" || x == "" {
			continue
		}
		if x == "false" {
			return "false"
		}
		ys = append(ys, x)
	}
	switch len(ys) {
	case 0:
		return "true"
	case 1:
		return ys[0]
	}
	return "(and " + strings.Join(ys, " ") + ")"
}

func or(xs ...string) string {
	var ys []string
	for _, x := range xs {
		if x == "false" || x == "" {
			continue
		}
		if x == "true" {
			return "true"
		}
		ys = append(ys, x)
	}
	switch len(ys) {
	case 0:
		return "false"
	case 1:
		return ys[0]
	}
	return "(or " + strings.Join(ys, " ") + ")"
}

func not(x string) string {
	switch x {
	case "true":
		return "false"
	case "false":
		return "true"
	}
	if strings.HasPrefix(x, "(not ") {
		return x[5 : len(x)-1]
	}
	return "(not " + x + ")"
}

func implies(a, b string) string {
	if a == "true" {
		return b
	}
	if b == "true" || a == "false" {
		return "true"
	}
	return "(=> " + a + " " + b + ")"
}

func itoa(i int) string { return strconv.Itoa(i) }

// locUnder is Underlying() except that time.Time is treated as an opaque scalar cell.
func locUnder(t types.Type) types.Type {
	if isTimeTime(t) {
		return types.Typ[types.Int64]
	}
	return t.Underlying()
}
