package main

import (
	"runtime"
	"strconv"
	"bytes"
	"context"
	"fmt"
	"os"
	"os/exec"
	"path/filepath"
	"regexp"
	"strings"
	"sync"
	"time"
)

type SolveResult struct {
	Answer  string // unsat | sat | unknown | timeout | error
	Solver  string
	Seconds float64
	Model   map[string]string
	Raw     string
	ByProc  map[string]string
	Hint    string
	HintRaw string
}

func (o *Obligation) query(withModel bool) string {
	c := o.ctx
	var b strings.Builder
	for _, d := range c.sortDecls {
		b.WriteString(d)
		b.WriteByte('\n')
	}
	if o.nativeStr {
		b.WriteString(c.strLitDeclsNative())
	} else {
		b.WriteString(c.strLitDecls())
	}
	for _, d := range c.decls {
		if o.noQuant && strings.HasPrefix(d, "(assert ") && hasQuant(d) {
			continue
		}
		b.WriteString(d)
		b.WriteByte('\n')
	}
	n := o.NAssume
	if n > len(c.assumes) {
		n = len(c.assumes)
	}
	for _, i := range o.relevantAssumes(n) {
		if o.noQuant && hasQuant(c.assumes[i]) {
			continue
		}
		b.WriteString("(assert " + c.assumes[i] + ")\n")
	}
	for _, x := range o.Extra {
		b.WriteString("(assert " + x + ")\n")
	}
	fmt.Fprintf(&b, "; obligation %s\n(assert %s)\n(assert (not %s))\n(check-sat)\n", o.Name, o.Reach, o.Cond)
	if withModel && len(o.ModelVars) > 0 {
		b.WriteString("(get-value (" + strings.Join(o.ModelVars, " ") + "))\n")
	}
	body := b.String()
	var pre strings.Builder
	if withModel {
		pre.WriteString("(set-option :produce-models true)\n")
	}
	if o.nativeStr {
		base := preambleBase
		for _, ln := range []string{"(declare-sort Str 0)\n", "(declare-fun slen (Str) Int)\n", "(declare-fun sat (Str Int) Int)\n", "(declare-const str_empty Str)\n", "(assert (= (slen str_empty) 0))\n"} {
			base = strings.Replace(base, ln, "", 1)
		}
		base = strings.Replace(base, "(set-logic ALL)\n", "(set-logic ALL)\n"+preambleNativeStr, 1)
		pre.WriteString(base)
	} else {
		pre.WriteString(preambleBase)
	}
	if strings.Contains(body, "(idx ") {
		// slice element offsets go through `idx` so that quantifier patterns contain no arithmetic;
		// the defined variant (a macro) is logically identical and better at producing models
		if o.idxDefined || o.noQuant || o.nativeStr {
			pre.WriteString("(define-fun idx ((o Int) (k Int)) Int (+ o k))\n")
		} else {
			pre.WriteString("(declare-fun idx (Int Int) Int)\n(assert (forall ((o Int) (k Int)) (! (= (idx o k) (+ o k)) :pattern ((idx o k)))))\n")
		}
	}
	for _, blk := range preambleBlocks {
		if strings.Contains(body, blk.sym) {
			if nat, ok := nativeBlocks[blk.sym]; ok && o.nativeStr {
				pre.WriteString(nat)
				continue
			}
			if o.noQuant {
				for _, ln := range strings.Split(blk.text, "\n") {
					if ln != "" && !hasQuant(ln) {
						pre.WriteString(ln + "\n")
					}
				}
				continue
			}
			pre.WriteString(blk.text)
		}
	}
	if strings.Contains(body, "scontains") && strings.Contains(body, "(sconcat ") && !o.noQuant && !o.nativeStr {
		pre.WriteString(scontainsConcat)
	}
	if c.needStrExt && !o.noQuant && !o.nativeStr {
		pre.WriteString(strExtAxiom)
	}
	if o.nativeStr {
		body = groundBoxAxioms(body)
	}
	b.Reset()
	b.WriteString(pre.String())
	b.WriteString(body)
	// Float64/Float32 are reserved sort names in the solvers: rename consistently
	return strings.ReplaceAll(strings.ReplaceAll(b.String(), "Float64", "FP64s"), "Float32", "FP32s")
}

var boxAxiomRe = regexp.MustCompile(`\(assert \(forall \(\(x [^()]+\)\) \(! \(= \((unbox_[^ ]+) \((box_[^ ]+) x\)\) x\) :pattern \(\(box_[^ ]+ x\)\)\)\)\)[^\n]*\n`)
var binderTokRe = regexp.MustCompile(`(^|[ (])(q_[A-Za-z0-9_]+|[a-z])([ )]|$)`)

// groundBoxAxioms replaces every `forall x. unbox(box x) = x` axiom by its instances on the ground `box`
// terms of the query. The axiom only says that box is injective with left inverse unbox, and instantiating it
// creates no new box terms, so a model of the instances extends to a model of the axiom: satisfiability is
// preserved, and the query loses a quantifier that keeps model finding from terminating.
func groundBoxAxioms(body string) string {
	ms := boxAxiomRe.FindAllStringSubmatch(body, -1)
	if len(ms) == 0 {
		return body
	}
	body = boxAxiomRe.ReplaceAllString(body, "")
	var extra strings.Builder
	for _, m := range ms {
		unbox, box := m[1], m[2]
		seen := map[string]bool{}
		needle := "(" + box + " "
		for i := 0; ; {
			j := strings.Index(body[i:], needle)
			if j < 0 {
				break
			}
			start := i + j + len(needle)
			// the argument: one balanced term
			k, depth := start, 0
			for k < len(body) {
				c := body[k]
				if c == '(' {
					depth++
				} else if c == ')' {
					if depth == 0 {
						break
					}
					depth--
					if depth == 0 {
						k++
						break
					}
				} else if depth == 0 && (c == ' ' || c == '\n') {
					break
				}
				k++
			}
			t := body[start:k]
			i = start
			if t == "" || seen[t] || binderTokRe.MatchString(t) {
				continue
			}
			seen[t] = true
			fmt.Fprintf(&extra, "(assert (= (%s (%s %s)) %s))\n", unbox, box, t, t)
		}
	}
	// instances go right before the obligation marker
	if k := strings.Index(body, "; obligation "); k >= 0 {
		return body[:k] + extra.String() + body[k:]
	}
	return body + extra.String()
}

func hasQuant(s string) bool {
	return strings.Contains(s, "(forall ") || strings.Contains(s, "(exists ")
}

// symbolTokens returns the declared symbols (constants and functions introduced by the engine)
// occurring in an SMT text.
func symbolTokens(s string, declared map[string]bool, out map[string]bool) {
	i := 0
	for i < len(s) {
		c := s[i]
		if c == '(' || c == ')' || c == ' ' || c == '\n' || c == '\t' {
			i++
			continue
		}
		j := i
		for j < len(s) && s[j] != '(' && s[j] != ')' && s[j] != ' ' && s[j] != '\n' && s[j] != '\t' {
			j++
		}
		tok := s[i:j]
		if declared[tok] {
			out[tok] = true
		}
		i = j
	}
}

// relevantAssumes is the cone of influence of the goal inside the assumption prefix: an assumption is
// kept iff it shares a declared symbol, transitively, with the goal. Dropping the rest weakens the
// hypotheses only with facts that cannot interact with the goal (sound for `unsat`), and keeps unrelated
// quantified facts out of the query so that refutable goals come back `sat` with a model.
func (o *Obligation) relevantAssumes(n int) []int {
	c := o.ctx
	c.mu.Lock()
	defer c.mu.Unlock()
	if os.Getenv("GOVC_NOSLICE") != "" {
		all := make([]int, n)
		for i := range all {
			all[i] = i
		}
		return all
	}
	if c.declaredSyms == nil {
		c.declaredSyms = map[string]bool{}
		for _, d := range c.decls {
			for _, kw := range []string{"(declare-const ", "(declare-fun "} {
				if strings.HasPrefix(d, kw) {
					rest := d[len(kw):]
					if k := strings.IndexAny(rest, " )"); k > 0 {
						c.declaredSyms[rest[:k]] = true
					}
				}
			}
		}
	}
	if len(c.assumeSyms) < len(c.assumes) {
		for i := len(c.assumeSyms); i < len(c.assumes); i++ {
			m := map[string]bool{}
			symbolTokens(c.assumes[i], c.declaredSyms, m)
			c.assumeSyms = append(c.assumeSyms, m)
		}
	}
	need := map[string]bool{}
	symbolTokens(o.Reach, c.declaredSyms, need)
	symbolTokens(o.Cond, c.declaredSyms, need)
	for _, x := range o.Extra {
		symbolTokens(x, c.declaredSyms, need)
	}
	bySym := map[string][]int{}
	for i := 0; i < n; i++ {
		for s := range c.assumeSyms[i] {
			bySym[s] = append(bySym[s], i)
		}
	}
	included := make([]bool, n)
	var work []string
	for s := range need {
		work = append(work, s)
	}
	for len(work) > 0 {
		s := work[len(work)-1]
		work = work[:len(work)-1]
		for _, i := range bySym[s] {
			if included[i] {
				continue
			}
			included[i] = true
			for t := range c.assumeSyms[i] {
				if !need[t] {
					need[t] = true
					work = append(work, t)
				}
			}
		}
	}
	var out []int
	for i := 0; i < n; i++ {
		if included[i] || len(c.assumeSyms[i]) == 0 {
			out = append(out, i)
		}
	}
	return out
}

type solverSpec struct {
	name string
	args func(file string, timeoutS int, seed int) []string
}

var solvers = []solverSpec{
	{"z3-new", func(f string, t, seed int) []string {
		return []string{"z3-new", fmt.Sprintf("-T:%d", t), fmt.Sprintf("smt.random_seed=%d", seed), f}
	}},
	{"z3", func(f string, t, seed int) []string {
		return []string{"z3", fmt.Sprintf("-T:%d", t), fmt.Sprintf("smt.random_seed=%d", seed), f}
	}},
	{"cvc5", func(f string, t, seed int) []string {
		return []string{"cvc5", "--incremental", fmt.Sprintf("--tlimit=%d", t*1000), fmt.Sprintf("--seed=%d", seed), f}
	}},
}

var solverSem = make(chan struct{}, 16)

// cvc5ConstArrays rewrites `((as const (Array K V)) T)` whose default T is not a value (cvc5 accepts only values
// there; z3 accepts any term) into a fresh array constant with the axiom "every entry is T". Same meaning.
func cvc5ConstArrays(q string) string {
	if !strings.Contains(q, "((as const ") {
		return q
	}
	declared := map[string]bool{}
	for _, m := range regexp.MustCompile(`\((?:declare-const|declare-fun|define-fun) ([^\s()]+)`).FindAllStringSubmatch(q, -1) {
		declared[m[1]] = true
	}
	cache := map[string]string{}
	n := 0
	var out strings.Builder
	for _, line := range strings.SplitAfter(q, "\n") {
		var pre strings.Builder
		for {
			i := strings.Index(line, "((as const ")
			found := false
			for i >= 0 {
				// sort
				j := i + len("((as const ")
				k := sexprEnd(line, j)
				if k < 0 || k >= len(line) || line[k] != ')' {
					break
				}
				sort := line[j:k]
				t0 := k + 1
				for t0 < len(line) && line[t0] == ' ' {
					t0++
				}
				t1 := sexprEnd(line, t0)
				if t1 < 0 || t1 >= len(line) || line[t1] != ')' {
					break
				}
				term := line[t0:t1]
				nonValue := false
				for _, tok := range regexp.MustCompile(`[^\s()]+`).FindAllString(term, -1) {
					if declared[tok] {
						nonValue = true
					}
				}
				if nonValue && strings.HasPrefix(sort, "(Array ") {
					key := sort + "|" + term
					name, ok := cache[key]
					if !ok {
						n++
						name = fmt.Sprintf("carr!%d", n)
						cache[key] = name
						ks := sort[len("(Array "):sexprEnd(sort, len("(Array "))]
						fmt.Fprintf(&pre, "(declare-const %s %s)\n(assert (forall ((k!c %s)) (! (= (select %s k!c) %s) :pattern ((select %s k!c)))))\n", name, sort, ks, name, term, name)
					}
					line = line[:i] + name + line[t1+1:]
					found = true
					break
				}
				nx := strings.Index(line[i+1:], "((as const ")
				if nx < 0 {
					break
				}
				i = i + 1 + nx
			}
			if !found {
				break
			}
		}
		out.WriteString(pre.String())
		out.WriteString(line)
	}
	return out.String()
}

// sexprEnd returns the index just past the S-expression (or atom) starting at s[i].
func sexprEnd(s string, i int) int {
	if i >= len(s) {
		return -1
	}
	if s[i] != '(' {
		j := i
		for j < len(s) && s[j] != ' ' && s[j] != ')' && s[j] != '(' && s[j] != '\n' {
			j++
		}
		return j
	}
	depth := 0
	for j := i; j < len(s); j++ {
		switch s[j] {
		case '(':
			depth++
		case ')':
			depth--
			if depth == 0 {
				return j + 1
			}
		}
	}
	return -1
}

func runSolver(sp solverSpec, file string, timeoutS, seed int, ctx context.Context) (string, string, float64) {
	if sp.name == "cvc5" {
		if data, err := os.ReadFile(file); err == nil {
			if q2 := cvc5ConstArrays(string(data)); q2 != string(data) {
				f2 := strings.TrimSuffix(file, ".smt2") + ".cvc5.smt2"
				if os.WriteFile(f2, []byte(q2), 0o644) == nil {
					file = f2
				}
			}
		}
	}
	args := sp.args(file, timeoutS, seed)
	cctx, cancel := context.WithTimeout(ctx, time.Duration(timeoutS+2)*time.Second)
	defer cancel()
	cmd := exec.CommandContext(cctx, args[0], args[1:]...)
	var out bytes.Buffer
	cmd.Stdout = &out
	cmd.Stderr = &out
	t0 := time.Now()
	_ = cmd.Run()
	el := time.Since(t0).Seconds()
	s := out.String()
	first := strings.TrimSpace(strings.SplitN(s, "\n", 2)[0])
	switch first {
	case "unsat", "sat", "unknown":
		return first, s, el
	case "timeout":
		return "timeout", s, el
	}
	if cctx.Err() != nil {
		return "timeout", s, el
	}
	return "error", s, el
}

// solve races the portfolio on one obligation. The first definite answer wins.
// loadFactor stretches the wall-clock solver limits when the machine is oversubscribed (other checks, test
// suites or compilers running beside this one): a limit meant as "10 s of solver time" must not turn into a
// spurious timeout — and, for a baseline obligation, into a false alarm — because the solver got a fraction
// of a core. 1 on a quiet machine; load average per core otherwise, capped at 8.
func loadFactor() int {
	data, err := os.ReadFile("/proc/loadavg")
	if err != nil {
		return 1
	}
	f := strings.Fields(string(data))
	if len(f) == 0 {
		return 1
	}
	l, err := strconv.ParseFloat(f[0], 64)
	if err != nil {
		return 1
	}
	k := int(l/float64(runtime.NumCPU()) + 0.5)
	if k < 1 {
		k = 1
	}
	if k > 8 {
		k = 8
	}
	return k
}

// solve discharges one obligation. When the goal as a whole is not decided in time and it is a conjunction
// (one conjunct per return point, or `A && B` inside a clause), the conjuncts are tried one by one: all
// `unsat` is a proof of the conjunction, one `sat` refutes it. Names and the baseline are unaffected.
func solve(o *Obligation, dir string, timeoutS, seed int, wantModel bool, only []string) SolveResult {
	res := solve1(o, dir, timeoutS, seed, wantModel, only)
	if res.Answer == "unsat" || res.Answer == "sat" || o.ExpectSat {
		return res
	}
	if strings.TrimSpace(o.Cond) == "false" && res.Hint != "" {
		// The condition was decided false while elaborating (two different literals compared, a select item that
		// is not the expected column, ...): the obligation holds only if its path is dead. The solvers did not
		// prove the path dead, and it is satisfiable once the quantified hypotheses are left out: refuted.
		res.Answer, res.Solver = "sat", "z3-new/noquant (condition is literally false)"
		res.Raw = res.HintRaw
		if wantModel {
			res.Model = parseModel(res.Raw)
		}
		return res
	}
	// Definitely-false test. A refutation is a `sat` answer, which the solvers rarely reach under quantified
	// hypotheses (frames, map conventions, string axioms). The converse question is an `unsat` question again:
	// "reach AND condition" unsatisfiable means the condition is false on EVERY path that reaches this point.
	// Together with the fact that the path was not proved dead (the main query is not unsat), that is a refutation.
	{
		no := *o
		no.Name = o.Name + ".never"
		no.Cond = "(not " + o.Cond + ")"
		nr := solve1(&no, dir, timeoutS, seed, false, only)
		if nr.Answer == "unsat" {
			res.Answer, res.Solver = "sat", nr.Solver+" (the condition is false on every path reaching it; the path itself was not proved dead)"
			res.Seconds += nr.Seconds
			res.Raw = "refuted: `reach and condition` is unsat (" + nr.Solver + "), `reach and not condition` is " + firstLine(res.Raw)
			res.Model = nil
			return res
		}
	}
	parts := splitGoal(o.Cond, 12)
	if len(parts) < 2 {
		return res
	}
	total := res.Seconds
	by := map[string]int{}
	for i, part := range parts {
		po := *o
		po.Name = fmt.Sprintf("%s.part%d", o.Name, i+1)
		po.Cond = part
		pr := solve1(&po, dir, timeoutS, seed, wantModel, only)
		total += pr.Seconds
		if os.Getenv("GOVC_DEBUG") != "" {
			fmt.Printf("DEBUG split %s answer=%s solver=%s %.2fs\n", po.Name, pr.Answer, pr.Solver, pr.Seconds)
		}
		if pr.Answer == "sat" {
			pr.Seconds = total
			return pr
		}
		if pr.Answer != "unsat" {
			return res
		}
		by[pr.Solver]++
	}
	best, bn := "", 0
	for k, n := range by {
		if n > bn || (n == bn && k < best) {
			best, bn = k, n
		}
	}
	res.Answer, res.Solver, res.Seconds, res.Raw = "unsat", best, total, fmt.Sprintf("unsat (goal split into %d conjuncts, each unsat)", len(parts))
	res.Hint = ""
	return res
}

// splitGoal splits `(and A B ...)` and `(=> R (and A B ...))` into conjuncts (recursively, at most max parts).
func splitGoal(cond string, max int) []string {
	cond = strings.TrimSpace(cond)
	args := sexprArgs(cond)
	if len(args) == 0 {
		return []string{cond}
	}
	var out []string
	switch args[0] {
	case "and":
		for _, a := range args[1:] {
			out = append(out, splitGoal(a, max)...)
		}
	case "=>":
		if len(args) != 3 {
			return []string{cond}
		}
		inner := splitGoal(args[2], max)
		if len(inner) < 2 {
			return []string{cond}
		}
		for _, a := range inner {
			out = append(out, "(=> "+args[1]+" "+a+")")
		}
	default:
		return []string{cond}
	}
	if len(out) > max || len(out) < 2 {
		return []string{cond}
	}
	return out
}

// sexprArgs returns the head symbol and the top-level arguments of an S-expression "(head a b ...)".
func sexprArgs(s string) []string {
	if len(s) < 2 || s[0] != '(' || s[len(s)-1] != ')' {
		return nil
	}
	body := s[1 : len(s)-1]
	var out []string
	depth, start, inStr := 0, -1, false
	flush := func(end int) {
		if start >= 0 {
			out = append(out, body[start:end])
			start = -1
		}
	}
	for i := 0; i < len(body); i++ {
		c := body[i]
		if inStr {
			if c == '"' {
				inStr = false
			}
			continue
		}
		switch {
		case c == '"':
			inStr = true
			if start < 0 {
				start = i
			}
		case c == '(':
			if depth == 0 && start < 0 {
				start = i
			}
			depth++
		case c == ')':
			depth--
			if depth == 0 {
				flush(i + 1)
			}
		case c == ' ' || c == '\n' || c == '\t':
			if depth == 0 {
				flush(i)
			}
		default:
			if start < 0 {
				start = i
			}
		}
	}
	flush(len(body))
	return out
}

func solve1(o *Obligation, dir string, timeoutS, seed int, wantModel bool, only []string) SolveResult {
	timeoutS *= loadFactor()
	file := filepath.Join(dir, sanitize(o.Name)+".smt2")
	if len(file) > 200 {
		file = filepath.Join(dir, fmt.Sprintf("%s_%x.smt2", sanitize(o.Name)[:100], hashStr(o.Name)))
	}
	o.idxDefined = false
	q := o.query(wantModel)
	if err := os.WriteFile(file, []byte(q), 0o644); err != nil {
		return SolveResult{Answer: "error", Raw: err.Error()}
	}
	fileDef := ""
	if strings.Contains(q, "(idx ") {
		o.idxDefined = true
		fileDef = strings.TrimSuffix(file, ".smt2") + ".def.smt2"
		os.WriteFile(fileDef, []byte(o.query(wantModel)), 0o644)
		o.idxDefined = false
	}
	// probe variant: all quantified hypotheses dropped. `unsat` there is still a proof (fewer
	// hypotheses); `sat` there is only a hint that the goal is refutable.
	fileNQ := ""
	if hasQuant(q) && len(only) == 0 {
		o.noQuant = true
		fileNQ = strings.TrimSuffix(file, ".smt2") + ".noquant.smt2"
		os.WriteFile(fileNQ, []byte(o.query(wantModel)), 0o644)
		o.noQuant = false
	}
	// model-finding variant: strings as native SMT-LIB sequences (no string axioms). Only a `sat` from it is
	// used: it is a concrete refutation under the real meaning of strings.
	fileSeq := ""
	if strings.Contains(q, "Str") && len(only) == 0 && !o.ExpectSat {
		o.nativeStr = true
		fileSeq = strings.TrimSuffix(file, ".smt2") + ".seq.smt2"
		os.WriteFile(fileSeq, []byte(o.query(wantModel)), 0o644)
		o.nativeStr = false
	}
	ctx, cancel := context.WithCancel(context.Background())
	defer cancel()
	type r struct {
		ans, raw, solver string
		sec              float64
	}
	ch := make(chan r, 2*len(solvers))
	var wg sync.WaitGroup
	n := 0
	type job struct {
		sp    solverSpec
		file  string
		label string
	}
	var jobs []job
	for _, sp := range solvers {
		if len(only) > 0 && !contains(only, sp.name) {
			continue
		}
		jobs = append(jobs, job{sp, file, sp.name})
		if fileDef != "" && sp.name != "z3" {
			jobs = append(jobs, job{sp, fileDef, sp.name + "/idxdef"})
		}
		if fileNQ != "" && sp.name == "z3-new" {
			jobs = append(jobs, job{sp, fileNQ, sp.name + "/noquant"})
		}
		if fileSeq != "" && sp.name == "z3-new" {
			jobs = append(jobs, job{sp, fileSeq, sp.name + "/seq"})
		}
	}
	for _, jb := range jobs {
		n++
		wg.Add(1)
		go func(jb job) {
			defer wg.Done()
			solverSem <- struct{}{}
			defer func() { <-solverSem }()
			if ctx.Err() != nil {
				ch <- r{"cancelled", "", jb.label, 0}
				return
			}
			a, raw, sec := runSolver(jb.sp, jb.file, timeoutS, seed, ctx)
			ch <- r{a, raw, jb.label, sec}
		}(jb)
	}
	res := SolveResult{Answer: "unknown", ByProc: map[string]string{}}
	got := 0
	for got < n {
		x := <-ch
		got++
		res.ByProc[x.solver] = x.ans
		if strings.HasSuffix(x.solver, "/noquant") && x.ans == "sat" {
			res.Hint = "refutable when the quantified hypotheses are ignored"
			res.HintRaw = x.raw
			continue
		}
		if strings.HasSuffix(x.solver, "/seq") && x.ans != "sat" {
			continue // the native-string variant only contributes refutations
		}
		if x.ans == "unsat" || x.ans == "sat" {
			res.Answer, res.Solver, res.Seconds, res.Raw = x.ans, x.solver, x.sec, x.raw
			cancel()
			break
		}
		if x.ans == "timeout" && res.Answer == "unknown" {
			res.Answer = "timeout"
		}
		if x.ans == "error" && res.Raw == "" {
			res.Raw = x.raw
		}
		if x.sec > res.Seconds {
			res.Seconds = x.sec
		}
	}
	if res.Answer == "unknown" {
		allErr := len(res.ByProc) > 0
		for _, a := range res.ByProc {
			if a != "error" {
				allErr = false
			}
		}
		if allErr {
			res.Answer = "error"
		}
	}
	go func() { wg.Wait() }()
	if res.Answer == "sat" && wantModel {
		res.Model = parseModel(res.Raw)
	}
	return res
}

func contains(xs []string, s string) bool {
	for _, x := range xs {
		if x == s {
			return true
		}
	}
	return false
}

var modelPairRe = regexp.MustCompile(`\(\s*([^\s()]+)\s+`)

// parseModel extracts (name value) pairs from a get-value answer (top-level pairs only).
func parseModel(raw string) map[string]string {
	m := map[string]string{}
	i := strings.Index(raw, "((")
	if i < 0 {
		return m
	}
	s := raw[i+1:]
	// s is a sequence of "(name value)" terminated by ")"
	pos := 0
	for pos < len(s) {
		for pos < len(s) && (s[pos] == ' ' || s[pos] == '\n' || s[pos] == '\t') {
			pos++
		}
		if pos >= len(s) || s[pos] != '(' {
			break
		}
		// parse balanced
		depth, start := 0, pos
		for ; pos < len(s); pos++ {
			if s[pos] == '(' {
				depth++
			} else if s[pos] == ')' {
				depth--
				if depth == 0 {
					pos++
					break
				}
			}
		}
		pair := s[start+1 : pos-1]
		// name is the first token, or a balanced term
		pair = strings.TrimSpace(pair)
		var name, val string
		if strings.HasPrefix(pair, "(") {
			d := 0
			for j := 0; j < len(pair); j++ {
				if pair[j] == '(' {
					d++
				} else if pair[j] == ')' {
					d--
					if d == 0 {
						name, val = pair[:j+1], strings.TrimSpace(pair[j+1:])
						break
					}
				}
			}
		} else {
			k := strings.IndexAny(pair, " \n\t")
			if k < 0 {
				continue
			}
			name, val = pair[:k], strings.TrimSpace(pair[k:])
		}
		m[name] = val
	}
	return m
}

// smtIntValue converts "(- 5)" / "5" to a Go-readable integer string.
func smtIntValue(v string) string {
	v = strings.TrimSpace(v)
	if strings.HasPrefix(v, "(-") {
		return "-" + strings.TrimSpace(strings.TrimSuffix(strings.TrimPrefix(v, "(-"), ")"))
	}
	return v
}
