package main

// Verification-condition generation: forward symbolic execution over go/ssa in
// passive form. Loops are cut at their invariants; calls use callee contracts.

import (
	"os"
	"fmt"
	"go/token"
	"go/types"
	"sort"
	"strings"

	"golang.org/x/tools/go/ssa"
)

type Val struct {
	T   string     // SMT term
	S   string     // SMT sort
	L   *Loc       // non-nil: translation-time location (pointer from FieldAddr/IndexAddr/Global/Alloc cell)
	GoT types.Type // Go type when known
}

type pathStep struct {
	structSort string // field step: datatype sort and field index
	field      int
	index      string // array index step (structSort == "")
}

type Loc struct {
	Comp string
	Idx  []string
	Path []pathStep
	Sort string
	GoT  types.Type
}

type State map[string]string

func (s State) clone() State {
	n := make(State, len(s))
	for k, v := range s {
		n[k] = v
	}
	return n
}

type Obligation struct {
	Name     string
	Kind     string // ensures, requires, invariant, nopanic, frame, lemma, cover, canary, callpre
	Fn       string
	Desc     string
	Pos      string
	NAssume  int    // prefix of ctx.assumes available
	Reach    string // path condition term
	Cond     string // must hold under Reach
	Extra    []string // extra assumptions (finding partitions)
	ExpectSat bool   // cover / canary / known-finding witness partitions: expected satisfiable
	Finding  string // known finding id if this is a W-partition
	ctx      *Ctx
	ModelVars []string // terms to get-value on sat
	idxDefined bool    // emit `idx` as a macro instead of an axiomatised symbol
	noQuant    bool    // probe variant without quantified hypotheses
	nativeStr  bool    // model-finding variant: Str as SMT-LIB String
	template   *templateInfo // K6 obligations: the SQL filter this obligation is about
}

type loopInfo struct {
	header   *ssa.BasicBlock
	body     map[*ssa.BasicBlock]bool
	ordinal  int // source order ordinal (1-based)
	backSrcs []*ssa.BasicBlock
}

type gen struct {
	ctx      *Ctx
	prog     *Program
	fn       *ssa.Function
	fc       *FuncContract
	cs       *ContractSet
	vals     map[ssa.Value]Val
	reach    map[*ssa.BasicBlock]string
	exit     map[*ssa.BasicBlock]State
	exitRch  map[*ssa.BasicBlock]string // reach at end of block (after in-block assumptions)
	entry    State
	loops    map[*ssa.BasicBlock]*loopInfo
	backEdge map[[2]int]bool
	written  map[*ssa.BasicBlock]map[string]bool
	dry      bool
	obls     []*Obligation
	ghostEnv map[string]Val
	paramEnv map[string]Val
	counters map[string]int
	loopPre  map[*ssa.BasicBlock]State
	curBlock *ssa.BasicBlock
	unsupported []string
	inlineDepth int
	isInline bool
	ghostSetsApplied int
	callOrd          map[*ssa.Call]int // source-order ordinal of each call among the calls of the same callee
	callOrdFn        *ssa.Function
	rootFc           *FuncContract // contract of the function under verification (set on generators of inlined callees)
	cellParams       map[string]bool
	retSetsCounted   bool
	ghostSetArgs     []Val // arguments of the call the ghost assignments being applied are anchored at
	qdepth           int   // nesting depth of the quantifier being elaborated (bound-variable naming)
	ghostSetBefore   bool  // applying the `before call` assignments (true) or the `after call` ones (false)
	pointAssertsApplied int
	// freshRefs: reference terms known (syntactically) to denote objects allocated during this execution;
	// writtenOld: components with a write that is not known to hit such an object only
	freshRefs  map[string]bool
	freshMemo  map[ssa.Value]int
	freshWrite bool
	writtenOld map[string]bool
	writtenOldB map[*ssa.BasicBlock]map[string]bool // the same per block (loops)
	dryOldB     map[*ssa.BasicBlock]map[string]bool // from the dry pass of this function
	rets     []inlineRet
	fnKey    string
	closureMap map[string]*ssa.MakeClosure
	boxed    map[string]Val
	lastNextKey string
	rangeComps  []string               // ghost visited-set components of the map range loops, in encounter order
	rangeComp   map[*ssa.Range]string
	rangeDom0   map[*ssa.Range]string  // key set of the ranged map when the loop started
	nilSeen  map[string][]*ssa.BasicBlock
	staleNames []string // invariants dropped because they name a local that no longer exists
	frameSummary bool // `modifies summary` in the contract under verification
	volatile map[string]bool // refs of cells captured by spawned goroutines
	volatileT map[string]types.Type // their pointer types (to settle them at wg.Wait())
	materialised map[string]string // interior location → object it was materialised as
	sprintfOrigin map[string]string // string term → constant fmt.Sprintf format it was built from
	inheritNoPanic bool
	dryWritten map[*ssa.BasicBlock]map[string]bool
	resultVals []Val // bound while elaborating ensures
}

type inlineRet struct {
	reach string
	vals  []Val
	st    State
	blk   *ssa.BasicBlock
}

// ------------------------------------------------------------ state helpers

func (g *gen) stGet(st State, comp string) string {
	if t, ok := st[comp]; ok {
		return t
	}
	s, ok := g.ctx.compSort[comp]
	if !ok {
		panic("unknown heap component " + comp)
	}
	// a component not touched yet has its value as of the last `modifies *` havoc (epoch), or entry
	ep := "0"
	if comp != epochKey {
		if e, ok := st[epochKey]; ok {
			ep = strings.ReplaceAll(e, "!", "_")
		}
	}
	n := comp + "@" + ep
	g.ctx.declareOnce("comp0:"+n, fmt.Sprintf("(declare-const %s %s)", n, s))
	st[comp] = n
	return n
}

// importComp registers a heap component first seen in a dry run of another function, declaring the
// struct datatypes its sort mentions. Returns false when the component is unknown.
func (g *gen) importComp(comp string) bool {
	if _, known := g.ctx.compSort[comp]; known {
		return true
	}
	srt, ok := g.prog.drySorts[comp]
	if !ok {
		return false
	}
	for _, tok := range strings.FieldsFunc(srt, func(r rune) bool { return r == '(' || r == ')' || r == ' ' }) {
		if strings.HasPrefix(tok, "S_") {
			if t, ok := g.prog.dryStructs[tok]; ok {
				g.ctx.sortOf(t)
			}
		}
		if strings.HasPrefix(tok, "T_") {
			return false // tuple-sorted components are never shared
		}
	}
	g.ctx.comp(comp, srt)
	return true
}

// epochKey is a pseudo-component that changes whenever everything is havoc'd (`modifies *`).
const epochKey = "zz_epoch"

// havocAll forgets every heap component and ghost variable (callee with `modifies *`).
func (g *gen) havocAll(st State) {
	for name := range g.cs.GhostVars {
		g.ghostComp(name)
	}
	for _, c := range g.ctx.sortedComps() {
		if c == "alloctop" || c == epochKey {
			continue
		}
		if strings.HasPrefix(c, "ghost_") && (g.cs.GhostConst[strings.TrimPrefix(c, "ghost_")] || g.ghostPrivate(strings.TrimPrefix(c, "ghost_"))) {
			continue
		}
		g.havocComp(st, c)
	}
	g.havocComp(st, epochKey)
}

// ghostPrivate: the ghost variable is assigned (`set`) or listed in a modifies clause by the contract of the
// function under verification only — no callee, however broad its frame (`modifies *`), can change it, since a
// ghost variable changes only through a `set` clause or a contract that names it.
// rootContract: the contract of the function under verification, also while executing an inlined callee.
func (g *gen) rootContract() *FuncContract {
	if g.rootFc != nil {
		return g.rootFc
	}
	if g.isInline {
		return nil
	}
	return g.fc
}

func (g *gen) ghostPrivate(name string) bool {
	root := g.rootContract()
	if root == nil {
		return false
	}
	mine := false
	for _, fc := range g.cs.Funcs {
		mentions := false
		for _, m := range fc.Modifies {
			if m == name {
				mentions = true
			}
		}
		for _, gs := range fc.GhostSets {
			if gs.Name == name {
				mentions = true
			}
		}
		if !mentions {
			continue
		}
		if fc == root {
			mine = true
		} else {
			return false
		}
	}
	return mine
}

var debugOld = os.Getenv("GOVC_DEBUG") == "old"

func (g *gen) stSet(st State, comp, term string) {
	st[comp] = term
	if !g.freshWrite && comp != "alloctop" {
		if debugOld && g.dry && !g.writtenOld[comp] {
			fmt.Fprintf(os.Stderr, "DEBUG old-write %s in %s (block %v)\n", comp, g.fnKey, g.curBlock)
		}
		g.writtenOld[comp] = true
		if g.curBlock != nil {
			if g.writtenOldB == nil {
				g.writtenOldB = map[*ssa.BasicBlock]map[string]bool{}
			}
			if g.writtenOldB[g.curBlock] == nil {
				g.writtenOldB[g.curBlock] = map[string]bool{}
			}
			g.writtenOldB[g.curBlock][comp] = true
		}
	}
	if g.curBlock != nil {
		w := g.written[g.curBlock]
		if w == nil {
			w = map[string]bool{}
			g.written[g.curBlock] = w
		}
		w[comp] = true
	}
}

func (g *gen) locRead(st State, l *Loc) string {
	t := g.stGet(st, l.Comp)
	for _, i := range l.Idx {
		t = "(select " + t + " " + i + ")"
	}
	for _, p := range l.Path {
		if p.structSort != "" {
			t = "(" + g.accessor(p.structSort, p.field) + " " + t + ")"
		} else {
			t = "(select " + t + " " + p.index + ")"
		}
	}
	return t
}

func (g *gen) accessor(structSort string, field int) string {
	st := g.ctx.structOf[structSort]
	return structSort + ".." + fieldName(st, field)
}

func (g *gen) updatePath(base string, path []pathStep, v string) string {
	if len(path) == 0 {
		return v
	}
	p := path[0]
	if p.structSort != "" {
		st := g.ctx.structOf[p.structSort]
		inner := g.updatePath("("+g.accessor(p.structSort, p.field)+" "+base+")", path[1:], v)
		var fs []string
		for i := 0; i < st.NumFields(); i++ {
			if i == p.field {
				fs = append(fs, inner)
			} else {
				fs = append(fs, "("+g.accessor(p.structSort, i)+" "+base+")")
			}
		}
		return "(mk-" + p.structSort + " " + strings.Join(fs, " ") + ")"
	}
	inner := g.updatePath("(select "+base+" "+p.index+")", path[1:], v)
	return "(store " + base + " " + p.index + " " + inner + ")"
}

func (g *gen) locWrite(st State, l *Loc, v string) {
	comp := g.stGet(st, l.Comp)
	// read chain
	bases := []string{comp}
	for _, i := range l.Idx {
		bases = append(bases, "(select "+bases[len(bases)-1]+" "+i+")")
	}
	nv := g.updatePath(bases[len(bases)-1], l.Path, v)
	for k := len(l.Idx) - 1; k >= 0; k-- {
		nv = "(store " + bases[k] + " " + l.Idx[k] + " " + nv + ")"
	}
	// name the new component value to keep terms small
	n := g.ctx.fresh(l.Comp, g.ctx.compSort[l.Comp])
	g.ctx.assume("(= " + n + " " + nv + ")")
	saved := g.freshWrite
	g.freshWrite = saved || (len(l.Idx) > 0 && g.freshRefs[l.Idx[0]])
	g.stSet(st, l.Comp, n)
	g.freshWrite = saved
}

func (g *gen) define(prefix, sort, term string) string {
	if len(term) < 24 && !strings.Contains(term, " ") {
		return term
	}
	n := g.ctx.fresh(prefix, sort)
	g.ctx.assume("(= " + n + " " + term + ")")
	return n
}

func (g *gen) count(kind string) int {
	g.counters[kind]++
	return g.counters[kind]
}

// typeInv is the representation invariant of a freshly introduced value of Go type t.
func (g *gen) typeInv(term string, t types.Type, st State) string {
	if isTimeTime(t) {
		return "true"
	}
	switch u := t.Underlying().(type) {
	case *types.Basic:
		if u.Info()&types.IsInteger != 0 {
			lo, hi := intRange(u)
			return "(and (<= " + smtInt(lo) + " " + term + ") (<= " + term + " " + smtInt(hi) + "))"
		}
		if u.Kind() == types.String {
			// a Go string value is at most as long as an allocation can be (same bound as slices)
			return "(<= (slen " + term + ") 4611686018427387904)"
		}
	case *types.Slice:
		top := g.stGet(st, "alloctop")
		return "(and (<= 0 (s.ref " + term + ")) (< (s.ref " + term + ") " + top + ") (<= 0 (s.off " + term + ")) (<= 0 (s.len " + term + ")) (<= (s.len " + term + ") (s.cap " + term + ")) (<= (+ (s.off " + term + ") (s.cap " + term + ")) 4611686018427387904) (=> (= (s.ref " + term + ") 0) (= (s.cap " + term + ") 0)))"
	case *types.Pointer, *types.Map:
		top := g.stGet(st, "alloctop")
		return "(and (<= 0 " + term + ") (< " + term + " " + top + "))"
	case *types.Struct:
		s := g.ctx.sortOf(t)
		var cs []string
		for i := 0; i < u.NumFields(); i++ {
			c := g.typeInv("("+g.accessor(s, i)+" "+term+")", u.Field(i).Type(), st)
			if c != "true" {
				cs = append(cs, c)
			}
		}
		return and(cs...)
	case *types.Tuple:
		s := g.ctx.sortOf(t)
		var cs []string
		for i := 0; i < u.Len(); i++ {
			c := g.typeInv(fmt.Sprintf("(%s..%d %s)", s, i, term), u.At(i).Type(), st)
			if c != "true" {
				cs = append(cs, c)
			}
		}
		return and(cs...)
	}
	return "true"
}

func (g *gen) havocVal(prefix string, t types.Type, st State, reach string) Val {
	s := g.ctx.sortOf(t)
	n := g.ctx.fresh(prefix, s)
	if inv := g.typeInv(n, t, st); inv != "true" {
		g.ctx.assume(inv)
	}
	return Val{T: n, S: s, GoT: t}
}

// ------------------------------------------------------------ obligations

func (g *gen) oblige(kind, name, desc string, pos token.Pos, reach, cond string) *Obligation {
	if g.dry {
		return nil
	}
	if cond == "true" {
		// trivially discharged; still counted so that evidence reflects it
	}
	o := &Obligation{Name: name, Kind: kind, Fn: g.fnKey, Desc: desc, NAssume: len(g.ctx.assumes), Reach: reach, Cond: cond, ctx: g.ctx}
	if pos.IsValid() && g.fn != nil {
		p := g.fn.Prog.Fset.Position(pos)
		o.Pos = fmt.Sprintf("%s:%d", shortFile(p.Filename), p.Line)
	}
	g.obls = append(g.obls, o)
	// after a panic-class check, execution continues only if it held. A callee's logical precondition is not
	// assumed afterwards: if it fails, everything downstream that relied on it fails visibly too (an obligation
	// that is new at a changed call site may be undecidable on its own; the ones it feeds are in the baseline)
	if kind != "callpre" {
		g.ctx.assume(implies(reach, cond))
	}
	return o
}

func shortFile(f string) string {
	if i := strings.Index(f, "/repo/"); i >= 0 {
		return f[i+6:]
	}
	return f
}

// ------------------------------------------------------------ CFG analysis

func (g *gen) analyseLoops() error {
	fn := g.fn
	g.loops = map[*ssa.BasicBlock]*loopInfo{}
	g.backEdge = map[[2]int]bool{}
	// DFS for back edges
	state := make([]int, len(fn.Blocks))
	var dfs func(b *ssa.BasicBlock)
	var err error
	dfs = func(b *ssa.BasicBlock) {
		state[b.Index] = 1
		for _, s := range b.Succs {
			switch state[s.Index] {
			case 0:
				dfs(s)
			case 1:
				if !s.Dominates(b) {
					err = fmt.Errorf("irreducible control flow at block %d", s.Index)
				}
				g.backEdge[[2]int{b.Index, s.Index}] = true
				li := g.loops[s]
				if li == nil {
					li = &loopInfo{header: s, body: map[*ssa.BasicBlock]bool{s: true}}
					g.loops[s] = li
				}
				li.backSrcs = append(li.backSrcs, b)
			}
		}
		state[b.Index] = 2
	}
	if len(fn.Blocks) > 0 {
		dfs(fn.Blocks[0])
	}
	if err != nil {
		return err
	}
	for _, li := range g.loops {
		var work []*ssa.BasicBlock
		for _, b := range li.backSrcs {
			if !li.body[b] {
				li.body[b] = true
				work = append(work, b)
			}
		}
		for len(work) > 0 {
			b := work[len(work)-1]
			work = work[:len(work)-1]
			for _, p := range b.Preds {
				if !li.body[p] {
					li.body[p] = true
					work = append(work, p)
				}
			}
		}
	}
	// ordinals by source position of the loop header's first positioned instruction / block comment
	var hs []*loopInfo
	for _, li := range g.loops {
		hs = append(hs, li)
	}
	sort.Slice(hs, func(i, j int) bool {
		pi, pj := g.loopPos(hs[i]), g.loopPos(hs[j])
		if pi != pj {
			return pi < pj
		}
		return hs[i].header.Index < hs[j].header.Index
	})
	for i, li := range hs {
		li.ordinal = i + 1
	}
	return nil
}

// loopPos approximates the source position of a loop by the smallest position in its body.
func (g *gen) loopPos(li *loopInfo) token.Pos {
	best := token.Pos(1 << 60)
	for b := range li.body {
		for _, in := range b.Instrs {
			switch in.(type) {
			case *ssa.DebugRef, *ssa.Phi:
				// a lifted phi carries the position of the variable's declaration, which is outside the loop
				// (and shared by every loop that updates the variable): not a position of this loop
				continue
			}
			if p := in.Pos(); p.IsValid() && p < best {
				best = p
			}
		}
	}
	if best == token.Pos(1<<60) {
		return token.Pos(li.header.Index)
	}
	return best
}

func (g *gen) rpo() []*ssa.BasicBlock {
	fn := g.fn
	seen := make([]bool, len(fn.Blocks))
	var order []*ssa.BasicBlock
	var dfs func(b *ssa.BasicBlock)
	dfs = func(b *ssa.BasicBlock) {
		seen[b.Index] = true
		for _, s := range b.Succs {
			if !seen[s.Index] && !g.backEdge[[2]int{b.Index, s.Index}] {
				dfs(s)
			}
		}
		order = append(order, b)
	}
	dfs(fn.Blocks[0])
	for i, j := 0, len(order)-1; i < j; i, j = i+1, j-1 {
		order[i], order[j] = order[j], order[i]
	}
	return order
}

// edgeCond is the condition under which control moves from p to b (given p's end is reached).
func (g *gen) edgeCond(p, b *ssa.BasicBlock) string {
	if len(p.Instrs) == 0 {
		return "true"
	}
	if iff, ok := p.Instrs[len(p.Instrs)-1].(*ssa.If); ok {
		c := g.val(iff.Cond).T
		if p.Succs[0] == b && p.Succs[1] == b {
			return "true"
		}
		if p.Succs[0] == b {
			return c
		}
		return not(c)
	}
	return "true"
}

type unsupportedErr string

func (g *gen) unsupportedf(f string, a ...interface{}) {
	panic(unsupportedErr(fmt.Sprintf(f, a...)))
}
