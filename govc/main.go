package main

import (
	"regexp"
	"encoding/json"
	"flag"
	"fmt"
	"os"
	"path/filepath"
	"sort"
	"strconv"
	"strings"
	"sync"
	"time"
)

type PropFunc struct {
	Key     string   `json:"key"`
	Include []string `json:"include,omitempty"` // obligation-name globs (default: all)
	Exclude []string `json:"exclude,omitempty"`
	Note    string   `json:"note,omitempty"`
}

type PropConfig struct {
	ID          string     `json:"id"`
	Packages    []string   `json:"packages"`
	Functions   []PropFunc `json:"functions"`
	Lemmas      []string   `json:"lemmas,omitempty"`
	TrustedBase []string   `json:"trusted_base,omitempty"`
	Assumptions []string   `json:"assumptions,omitempty"`
	Bounded     []BoundedCheck `json:"bounded,omitempty"`
	Level       string     `json:"level,omitempty"`
	Extra       []string   `json:"extra_checks,omitempty"` // names of built-in auxiliary analyses (k5, k6 …)
	Templates   []TemplateCheck `json:"templates,omitempty"` // K6: SQL template lemmas
	Transitions []TransitionCheck `json:"transitions,omitempty"` // K6b: guarded SQL state-machine updates
	ScanColumns []ScanColumnCheck `json:"scan_columns,omitempty"` // K6c: provenance of a scanned column
	Wheres      []WhereCheck      `json:"wheres,omitempty"`       // K6d: WHERE-clause entailment (3VL)
	Buckets     []BucketCheck     `json:"buckets,omitempty"`      // K6e: time-bucket rewrite templates
}

type BoundedCheck struct {
	Name    string `json:"name"`
	Package string `json:"package"`
	Test    string `json:"test"`  // file under /verif/bounded/ injected by overlay
	Run     string `json:"run"`   // -run pattern
	Bound   string `json:"bound"` // human-readable bound
	QuickEnv string `json:"quick_env,omitempty"`
	ThoroughEnv string `json:"thorough_env,omitempty"`
}

type KnownFinding struct {
	Property   string `json:"property"`
	ID         string `json:"id"`
	Obligation string `json:"obligation"`
	When       string `json:"when"`
	What       string `json:"what"`
	Status     string `json:"status"` // open | fixed
	Commit     string `json:"commit,omitempty"`
	Replay     string `json:"replay,omitempty"`
	// Demo-backed finding (no contract obligation expresses it): the demonstration test under /verif/demos is run
	// against the real code on every check; while it fails the finding is reported as known, once it passes the
	// finding is reported as no longer reproducing.
	DemoPackage string `json:"demo_package,omitempty"`
	DemoFile    string `json:"demo_file,omitempty"`
	DemoRun     string `json:"demo_run,omitempty"`
}

type oblResult struct {
	O   *Obligation
	R   SolveResult
	FR  *FuncResult
	Out string // discharged | violated | undecided | known-finding | resolved? | cover-ok | vacuous
	Why string
	ReplayPath string
	Reproduced bool
}

func main() {
	if len(os.Args) < 2 {
		fmt.Fprintln(os.Stderr, "usage: govc check|dump|list ...")
		os.Exit(2)
	}
	switch os.Args[1] {
	case "check":
		os.Exit(cmdCheck(os.Args[2:]))
	case "dump":
		os.Exit(cmdDump(os.Args[2:]))
	default:
		fmt.Fprintln(os.Stderr, "unknown command", os.Args[1])
		os.Exit(2)
	}
}

func cmdDump(args []string) int {
	fs := flag.NewFlagSet("dump", flag.ExitOnError)
	repo := fs.String("repo", "/repo", "")
	verif := fs.String("verif", "/verif", "")
	pkg := fs.String("pkg", "", "package pattern")
	fn := fs.String("fn", "", "function key")
	smt := fs.String("smt", "", "print the SMT query of this obligation")
	fs.Parse(args)
	p, err := loadProgram(*repo, strings.Split(*pkg, ","), filepath.Join(*verif, "govc", "stdlib"))
	if err != nil {
		fmt.Fprintln(os.Stderr, err)
		return 2
	}
	if *fn == "" {
		var ks []string
		for k := range p.funcs {
			ks = append(ks, k)
		}
		sort.Strings(ks)
		for _, k := range ks {
			fmt.Println(k)
		}
		return 0
	}
	f := p.funcs[*fn]
	if f == nil {
		fmt.Fprintln(os.Stderr, "no such function")
		return 2
	}
	if *smt == "" {
		f.WriteTo(os.Stdout)
	}
	fr := p.verifyFunction(*fn)
	if fr.Err != nil {
		fmt.Println("ERROR:", fr.Err)
	}
	for _, u := range fr.Unsupported {
		fmt.Println("UNSUPPORTED:", u)
	}
	for _, o := range fr.Obligations {
		if *smt != "" {
			if o.Name == *smt {
				fmt.Print(o.query(true))
			}
			continue
		}
		fmt.Printf("OBL %-60s %s  [%s]\n", o.Name, o.Pos, o.Desc)
	}
	return 0
}

func cmdCheck(args []string) int {
	fs := flag.NewFlagSet("check", flag.ExitOnError)
	repo := fs.String("repo", "/repo", "")
	verif := fs.String("verif", "/verif", "")
	prop := fs.String("prop", "", "property id")
	tier := fs.String("tier", "quick", "quick|thorough")
	keep := fs.Bool("keep", false, "keep SMT files")
	noEvidence := fs.Bool("no-evidence", false, "do not write the evidence file (selftest)")
	record := fs.Bool("record", false, "record the discharged obligations as this property's baseline (developer action, committed)")
	fs.Parse(args)
	if t := os.Getenv("VERIF_TIER"); t == "quick" || t == "thorough" {
		*tier = t
	}
	seed := 0
	if s := os.Getenv("VERIF_SEED"); s != "" {
		seed, _ = strconv.Atoi(s)
	}
	t0 := time.Now()
	cfgData, err := os.ReadFile(filepath.Join(*verif, "props", *prop+".json"))
	if err != nil {
		fmt.Fprintln(os.Stderr, "ENGINE-FAILURE:", err)
		return 2
	}
	var cfg PropConfig
	if err := json.Unmarshal(cfgData, &cfg); err != nil {
		fmt.Fprintln(os.Stderr, "ENGINE-FAILURE: bad property config:", err)
		return 2
	}
	var known []KnownFinding
	if kd, err := os.ReadFile(filepath.Join(*verif, "known_findings.json")); err == nil {
		if err := json.Unmarshal(kd, &known); err != nil {
			fmt.Fprintln(os.Stderr, "ENGINE-FAILURE: bad known_findings.json:", err)
			return 2
		}
	}
	expAll := map[string][]string{}
	if ed, err := os.ReadFile(filepath.Join(*verif, "expected_obligations.json")); err == nil {
		if err := json.Unmarshal(ed, &expAll); err != nil {
			fmt.Fprintln(os.Stderr, "ENGINE-FAILURE: bad expected_obligations.json:", err)
			return 2
		}
	}
	expected := map[string]bool{}
	_, haveBaseline := expAll[*prop]
	for _, n := range expAll[*prop] {
		expected[n] = true
	}
	openFinding := map[string]*KnownFinding{}
	for i := range known {
		if known[i].Property == cfg.ID && known[i].Status == "open" {
			openFinding[known[i].ID] = &known[i]
		}
	}

	tl := time.Now()
	p, err := loadProgram(*repo, cfg.Packages, filepath.Join(*verif, "govc", "stdlib"))
	if err != nil {
		fmt.Fprintln(os.Stderr, "ENGINE-FAILURE: cannot load packages:", err)
		return 2
	}
	loadS := time.Since(tl).Seconds()

	timeout := 10
	if *tier == "thorough" {
		timeout = 60
	}
	tmp, err := os.MkdirTemp("", "govc-"+cfg.ID+"-")
	if err != nil {
		fmt.Fprintln(os.Stderr, "ENGINE-FAILURE:", err)
		return 2
	}
	if !*keep {
		defer os.RemoveAll(tmp)
	} else {
		fmt.Println("SMT files in", tmp)
	}

	// generate
	var all []*oblResult
	staleFn := map[string]string{} // function -> first invariant that names a vanished local
	var undecidedFuncs []string
	var notes = map[string]int{}
	assumed := map[string]bool{}
	funcsUnder := []string{}
	nameCount := map[string]int{}
	for _, pf := range cfg.Functions {
		fr := p.verifyFunction(pf.Key)
		funcsUnder = append(funcsUnder, pf.Key)
		if fr.Err != nil {
			undecidedFuncs = append(undecidedFuncs, fmt.Sprintf("%s: %v", pf.Key, fr.Err))
			fmt.Printf("UNDECIDED function=%s reason=%v\n", pf.Key, fr.Err)
			continue
		}
		for _, u := range fr.Unsupported {
			undecidedFuncs = append(undecidedFuncs, fmt.Sprintf("%s: %s", pf.Key, u))
			fmt.Printf("UNDECIDED function=%s reason=%s\n", pf.Key, u)
		}
		if len(fr.StaleNames) > 0 {
			staleFn[pf.Key] = fr.StaleNames[0]
		}
		if fr.Ctx != nil {
			for k, v := range fr.Ctx.notes {
				if notes[k] == 0 && strings.Contains(k, " dropped: ") {
					fmt.Printf("NOTE: %s\n", k)
				}
				notes[k] += v
			}
			for k := range fr.Ctx.assumed {
				assumed[k] = true
			}
		}
		for _, o := range fr.Obligations {
			if !selected(o.Name, pf) {
				continue
			}
			nameCount[o.Name]++
			if c := nameCount[o.Name]; c > 1 {
				o.Name = fmt.Sprintf("%s#%d", o.Name, c) // never let two obligations share a name (and an SMT file)
			}
			o.ModelVars = fr.ParamTerms
			all = append(all, &oblResult{O: o, FR: fr})
		}
	}
	for _, tc := range cfg.Templates {
		obls, und := p.templateObligations(tc)
		for _, u := range und {
			undecidedFuncs = append(undecidedFuncs, u)
			fmt.Printf("UNDECIDED template=%s reason=%s\n", tc.Name, u)
		}
		funcsUnder = append(funcsUnder, tc.Function+" (SQL template "+tc.Name+")")
		for _, o := range obls {
			all = append(all, &oblResult{O: o, FR: &FuncResult{Key: tc.Function}})
		}
		assumed["DuckDB three-valued logic: WHERE keeps a row iff the filter is TRUE; NOT NULL = NULL; IS [NOT] TRUE and COALESCE as in the SQL standard (validated by the SQL replay on refutation)"] = true
	}
	for _, bc := range cfg.Buckets {
		obls, und := p.bucketObligations(bc)
		for _, u := range und {
			undecidedFuncs = append(undecidedFuncs, u)
			fmt.Printf("UNDECIDED bucket=%s reason=%s\n", bc.Name, u)
		}
		funcsUnder = append(funcsUnder, bc.Function+" (time-bucket rewrite template "+bc.Name+")")
		for _, o := range obls {
			all = append(all, &oblResult{O: o, FR: &FuncResult{Key: bc.Function}})
		}
		assumed["DuckDB: time_bucket/date_trunc floor to multiples of the width counted from 2000-01-03 (or the given origin); epoch() is seconds as DOUBLE; ::BIGINT rounds to nearest; // truncates toward zero (each validated by the known-finding demonstrations in the real DuckDB)"] = true
	}
	for _, sc := range cfg.ScanColumns {
		obls, und := p.scanColumnObligations(sc)
		for _, u := range und {
			undecidedFuncs = append(undecidedFuncs, u)
			fmt.Printf("UNDECIDED scan-column=%s reason=%s\n", sc.Name, u)
		}
		funcsUnder = append(funcsUnder, sc.Function+" (SQL scan provenance "+sc.Name+")")
		for _, o := range obls {
			all = append(all, &oblResult{O: o, FR: &FuncResult{Key: sc.Function}})
		}
		assumed["database/sql Scan assigns select item i to destination i"] = true
	}
	var anyFn = firstFunc(p)
	for _, tc := range cfg.Transitions {
		frs, und := p.transitionObligations(tc, anyFn)
		for _, u := range und {
			undecidedFuncs = append(undecidedFuncs, u)
			fmt.Printf("UNDECIDED transitions=%s reason=%s\n", tc.Name, u)
		}
		funcsUnder = append(funcsUnder, fmt.Sprintf("every UPDATE of %s.%s in %s (SQL transitions %s)", tc.Table, tc.Column, tc.PkgSuffix, tc.Name))
		for _, fr := range frs {
			for _, o := range fr.Obligations {
				nameCount[o.Name]++
				all = append(all, &oblResult{O: o, FR: fr})
			}
		}
		assumed["SQL UPDATE … WHERE changes a row only if the whole WHERE clause is TRUE for it; positional `?` parameters bind in textual order (database/sql + SQLite)"] = true
	}
	for _, wc := range cfg.Wheres {
		frs, und := p.whereObligations(wc, anyFn)
		for _, u := range und {
			undecidedFuncs = append(undecidedFuncs, u)
			fmt.Printf("UNDECIDED where=%s reason=%s\n", wc.Name, u)
		}
		funcsUnder = append(funcsUnder, fmt.Sprintf("WHERE clause of the constant SQL containing %q in %s (K6d %s)", wc.Contains, wc.Function, wc.Name))
		for _, fr := range frs {
			for _, o := range fr.Obligations {
				nameCount[o.Name]++
				all = append(all, &oblResult{O: o, FR: fr})
			}
		}
		assumed["SQL selects/changes a row only if the whole WHERE clause evaluates to TRUE for it (three-valued logic; atoms of the WHERE clause treated as independent)"] = true
	}
	for _, ln := range cfg.Lemmas {
		fr := p.verifyLemma(ln, anyFn)
		if fr.Err != nil {
			undecidedFuncs = append(undecidedFuncs, fmt.Sprintf("lemma %s: %v", ln, fr.Err))
			fmt.Printf("UNDECIDED lemma=%s reason=%v\n", ln, fr.Err)
			continue
		}
		for _, o := range fr.Obligations {
			o.ModelVars = fr.ParamTerms
			all = append(all, &oblResult{O: o, FR: fr})
		}
	}

	// solve in parallel
	var wg sync.WaitGroup
	work := make(chan *oblResult)
	for w := 0; w < 12; w++ {
		wg.Add(1)
		go func() {
			defer wg.Done()
			for r := range work {
				if r.O.Cond == "true" && !r.O.ExpectSat {
					r.R = SolveResult{Answer: "unsat", Solver: "trivial"}
					continue
				}
				to := timeout
				if r.O.ExpectSat && r.O.Finding == "" {
					to = 3 // vacuity probes: only a quick `unsat` matters
				}
				r.R = solve(r.O, tmp, to, seed, true, nil)
				if *tier == "thorough" && r.R.Answer == "unsat" && !r.O.ExpectSat {
					// second opinion from a different solver
					var others []string
					for _, s := range solvers {
						if s.name != r.R.Solver {
							others = append(others, s.name)
						}
					}
					r2 := solve(r.O, tmp, timeout, seed+1, false, others)
					if r2.Answer == "sat" {
						r.R.Answer = "unknown"
						r.R.Raw = "solver disagreement: " + r.R.Solver + " unsat, " + r2.Solver + " sat"
					} else if r2.Answer == "unsat" {
						r.R.Solver += "+" + r2.Solver
					}
				}
			}
		}()
	}
	for _, r := range all {
		work <- r
	}
	close(work)
	wg.Wait()

	// classify
	vacuousFn := map[string]bool{}
	for _, r := range all {
		if r.O.ExpectSat && r.O.Finding == "" {
			if r.R.Answer == "unsat" {
				vacuousFn[r.O.Fn] = true
			}
		}
	}
	exit := 0
	violations := 0
	discharged, total := 0, 0
	byBackend := map[string]int{}
	backendSec := map[string]float64{}
	var undecided []string
	var findingsSeen []string
	var samples []map[string]interface{}
	replayDir := filepath.Join(*verif, "replays", cfg.ID)
	longRetries := 0
	for _, r := range all {
		o := r.O
		switch {
		case o.ExpectSat && o.Finding == "":
			switch r.R.Answer {
			case "sat":
				r.Out = "cover-ok"
			case "unsat":
				r.Out = "vacuous"
				fmt.Printf("UNDECIDED obligation=%s reason=vacuous (precondition or path unreachable)\n", o.Name)
				undecided = append(undecided, o.Name+": vacuous")
			default:
				r.Out = "cover-unknown"
			}
			continue
		case o.Finding != "":
			kf := openFinding[o.Finding]
			if kf == nil && otherPropFinding(known, o.Finding, cfg.ID) {
				// the function is shared with another property, which owns (and reports) this finding
				r.Out = "other-property-finding"
				continue
			}
			if kf == nil {
				fmt.Fprintf(os.Stderr, "ENGINE-FAILURE: contract names finding %s which is not an open entry of known_findings.json\n", o.Finding)
				return 2
			}
			switch r.R.Answer {
			case "sat":
				r.Out = "known-finding"
				if !contains(findingsSeen, kf.ID) {
					fmt.Printf("KNOWN-FINDING: property=%s %s [%s; obligation %s]\n", cfg.ID, kf.What, kf.ID, o.Name)
					findingsSeen = append(findingsSeen, kf.ID)
				} else {
					fmt.Printf("NOTE: known finding %s also witnessed by obligation %s\n", kf.ID, o.Name)
				}
			case "unsat":
				r.Out = "resolved?"
				fmt.Printf("NOTE: known finding %s no longer reproduces (obligation %s discharged) — RESOLVED?\n", kf.ID, o.Name)
			default:
				r.Out = "known-finding-undecided"
				if !contains(findingsSeen, kf.ID) {
					fmt.Printf("KNOWN-FINDING: property=%s %s [%s; obligation %s; solver answered %s on the witness partition]\n", cfg.ID, kf.What, kf.ID, o.Name, r.R.Answer)
					findingsSeen = append(findingsSeen, kf.ID)
				}
			}
			continue
		}
		total++
		if os.Getenv("GOVC_DEBUG") != "" {
			fmt.Printf("DEBUG %s answer=%s solver=%s %.2fs %v\n", o.Name, r.R.Answer, r.R.Solver, r.R.Seconds, r.R.ByProc)
		}
		if vacuousFn[o.Fn] && r.R.Answer != "sat" {
			// (a refutation stays a refutation: `sat` means the hypotheses are consistent at that point; a failed
			// point assertion is assumed afterwards, which is what makes the rest of such a function unreachable)
			r.Out = "undecided"
			fmt.Printf("UNDECIDED obligation=%s reason=function vacuous\n", o.Name)
			undecided = append(undecided, o.Name+": function vacuous")
			continue
		}
		if r.R.Answer != "unsat" && r.R.Answer != "sat" && expected[o.Name] && longRetries < 4 {
			// an obligation of the committed baseline did not discharge: retry with a long timeout on all solvers
			// (at most 4 such retries per run: on an unchanged tree none is needed; a tree where more than 4
			// baseline obligations fail is in violation whatever the ninth retry says)
			longRetries++
			r2 := solve1(o, tmp, 45, seed+17, true, nil) // the plain race only: the first pass already tried the other strategies
			if os.Getenv("GOVC_DEBUG") != "" {
				fmt.Printf("DEBUG retry %s answer=%s solver=%s %.2fs %v\n", o.Name, r2.Answer, r2.Solver, r2.Seconds, r2.ByProc)
			}
			if r2.Answer == "unsat" || r2.Answer == "sat" {
				r.R = r2
			}
		}
		regress := func(reason string) {
			if why, stale := staleFn[o.Fn]; stale {
				// an invariant of this function names a local that no longer exists (a rename, an inlined
				// temporary): the proof is incomplete for that reason, which says nothing about the code
				r.Out = "undecided"
				undecided = append(undecided, o.Name+": contract out of date ("+why+")")
				fmt.Printf("UNDECIDED obligation=%s reason=contract-out-of-date (%s)\n", o.Name, why)
				return
			}
			os.MkdirAll(replayDir, 0o755)
			path := filepath.Join(replayDir, sanitize(o.Name)+".json")
			if r.ReplayPath != "" {
				path = r.ReplayPath
			} else {
				rf := replayFile{Property: cfg.ID, Obligation: o.Name, Kind: o.Kind, Clause: o.Desc, At: o.Pos, Solver: r.R.Solver, Answer: r.R.Answer,
					SolverOut: truncate(r.R.Raw, 4000), Verdict: "REGRESSION: this obligation is discharged on the unchanged tree (expected_obligations.json) and is no longer discharged: " + reason + "; no failing input was found"}
				data, _ := json.MarshalIndent(rf, "", " ")
				os.WriteFile(path, data, 0o644)
			}
			r.Out = "violated"
			violations++
			exit = 1
			fmt.Printf("VIOLATION property=%s replay=%s obligation=%s no-failing-input-found\n", cfg.ID, path, o.Name)
		}
		switch r.R.Answer {
		case "unsat":
			r.Out = "discharged"
			discharged++
			byBackend[r.R.Solver]++
			backendSec[r.R.Solver] += r.R.Seconds
		case "sat":
			// refuted: try to replay on the real code
			path, reproduced, detail := replay(p, &cfg, r, replayDir, *repo, *verif)
			r.ReplayPath, r.Reproduced = path, reproduced
			switch detail {
			case "reproduced":
				r.Out = "violated"
				violations++
				exit = 1
				fmt.Printf("VIOLATION property=%s replay=%s obligation=%s\n", cfg.ID, path, o.Name)
			case "not-reproduced":
				if expected[o.Name] {
					regress("refuted by " + r.R.Solver + ", the solver's input did not reproduce on the real code")
				} else {
					r.Out = "undecided"
					undecided = append(undecided, o.Name+": refuted by "+r.R.Solver+" but the model does not reproduce on the real code (spurious: abstraction or invariant too weak)")
					fmt.Printf("UNDECIDED obligation=%s reason=counterexample-not-reproduced replay=%s\n", o.Name, path)
				}
			default: // no replay possible for this obligation shape
				if _, stale := staleFn[o.Fn]; stale {
					regress("refuted by " + r.R.Solver)
				} else if expected[o.Name] || !haveBaseline || siblingCallSite(o.Name, expected) {
					r.Out = "violated"
					violations++
					exit = 1
					fmt.Printf("VIOLATION property=%s replay=%s obligation=%s no-failing-input-found\n", cfg.ID, path, o.Name)
				} else {
					r.Out = "undecided"
					undecided = append(undecided, o.Name+": refuted by "+r.R.Solver+" (not in the discharged baseline; no replay harness)")
					fmt.Printf("UNDECIDED obligation=%s reason=refuted-no-replay-not-in-baseline replay=%s\n", o.Name, path)
				}
			}
		default:
			why := r.R.Answer
			if r.R.Answer == "error" {
				why = "solver error: " + firstLine(r.R.Raw)
			}
			if expected[o.Name] {
				regress("solvers answered " + why + " within the extended time limit")
			} else {
				r.Out = "undecided"
				if r.R.Hint != "" {
					why += " (" + r.R.Hint + ")"
				}
				undecided = append(undecided, o.Name+": "+why)
				fmt.Printf("UNDECIDED obligation=%s reason=%s\n", o.Name, why)
			}
		}
	}
	// baseline obligations that were not generated at all (contract-stale / function out of subset)
	seenNames := map[string]bool{}
	for _, r := range all {
		seenNames[r.O.Name] = true
	}
	var missing []string
	for n := range expected {
		if !seenNames[n] {
			missing = append(missing, n)
		}
	}
	sort.Strings(missing)
	for _, n := range missing {
		undecided = append(undecided, n+": in the baseline but not generated by this run (contract-stale)")
		fmt.Printf("UNDECIDED obligation=%s reason=baseline-obligation-not-generated\n", n)
	}
	if *record {
		var names []string
		for _, r := range all {
			if r.Out == "discharged" && r.R.Seconds < 4 {
				names = append(names, r.O.Name)
			}
		}
		sort.Strings(names)
		expAll[cfg.ID] = names
		data, _ := json.MarshalIndent(expAll, "", " ")
		os.WriteFile(filepath.Join(*verif, "expected_obligations.json"), data, 0o644)
		fmt.Printf("RECORDED %d baseline obligations for %s\n", len(names), cfg.ID)
	}
	// bounded stand-ins
	var boundedOut []map[string]interface{}
	for _, bc := range cfg.Bounded {
		ok, out, secs := runBounded(bc, *repo, *verif, *tier)
		entry := map[string]interface{}{"name": bc.Name, "bound": bc.Bound, "passed": ok, "seconds": secs, "label": "bounded (not counted as proved)"}
		boundedOut = append(boundedOut, entry)
		if !ok {
			path := filepath.Join(replayDir, sanitize(bc.Name)+".bounded.txt")
			os.MkdirAll(replayDir, 0o755)
			os.WriteFile(path, []byte(out), 0o644)
			violations++
			exit = 1
			fmt.Printf("VIOLATION property=%s replay=%s obligation=bounded.%s\n", cfg.ID, path, bc.Name)
		}
	}

	// demo-backed known findings of this property
	for id, kf := range openFinding {
		if kf.DemoFile == "" {
			continue
		}
		src, err := os.ReadFile(filepath.Join(*verif, "demos", kf.DemoFile))
		if err != nil {
			fmt.Printf("UNDECIDED finding=%s reason=demo file missing: %v\n", id, err)
			continue
		}
		_ = src
		ok, out, _ := runBounded(BoundedCheck{Name: id, Package: kf.DemoPackage, Test: filepath.Join("..", "demos", kf.DemoFile), Run: "^" + kf.DemoRun + "$"}, *repo, *verif, *tier)
		if ok {
			fmt.Printf("NOTE: known finding %s no longer reproduces (demo %s passes) — RESOLVED?\n", id, kf.DemoRun)
			continue
		}
		if !strings.Contains(out, "--- FAIL") {
			fmt.Printf("UNDECIDED finding=%s reason=demo did not run to a verdict\n", id)
			continue
		}
		if !contains(findingsSeen, id) {
			findingsSeen = append(findingsSeen, id)
		}
		fmt.Printf("KNOWN-FINDING: property=%s %s [%s; reproduced by demo %s on the current tree]\n", cfg.ID, kf.What, id, kf.DemoRun)
	}

	// samples: three distinct obligations chosen by seed
	var cand []*oblResult
	for _, r := range all {
		if !(r.O.ExpectSat && r.O.Finding == "") {
			cand = append(cand, r)
		}
	}
	for k := 0; k < 3 && k < len(cand); k++ {
		r := cand[(seed+k*len(cand)/3)%len(cand)]
		samples = append(samples, map[string]interface{}{
			"obligation": r.O.Name, "kind": r.O.Kind, "clause": r.O.Desc, "at": r.O.Pos,
			"answer": r.R.Answer, "solver": r.R.Solver, "seconds": round3(r.R.Seconds), "smt_bytes": len(r.O.query(false)), "outcome": r.Out,
		})
	}
	wall := time.Since(t0).Seconds()
	fmt.Printf("SUMMARY property=%s tier=%s functions=%d obligations=%d discharged=%d undecided=%d violations=%d known_findings=%d load=%.1fs wall=%.1fs\n",
		cfg.ID, *tier, len(funcsUnder), total, discharged, len(undecided)+len(undecidedFuncs), violations, len(findingsSeen), loadS, wall)

	if !*noEvidence {
		level := "proof"
		explanation := ""
		if discharged < total || len(undecidedFuncs) > 0 || total == 0 {
			level = "other"
			explanation = fmt.Sprintf("%d of %d obligations discharged; %d undecided obligations and %d functions/lemmas outside the subset are listed under undecided — this run is below proof level", discharged, total, len(undecided), len(undecidedFuncs))
		}
		if cfg.Level != "" && level == "proof" {
			level = cfg.Level
		}
		var assumedList []string
		for k := range assumed {
			assumedList = append(assumedList, k)
		}
		sort.Strings(assumedList)
		assumptions := append([]string{}, cfg.Assumptions...)
		assumptions = append(assumptions, assumedList...)
		assumptions = append(assumptions, p.cs.ScanHits...)
		tb := append([]string{"govc VC generator (this repository's /verif/govc)", "golang.org/x/tools/go/ssa v0.50.0", "SMT solvers z3 4.8.12 / z3 5.1.0 / cvc5 1.0.x", "Go language semantics for the modelled subset; integers are mathematical Int with explicit two's-complement wrap"}, cfg.TrustedBase...)
		bsec := map[string]float64{}
		for k, v := range backendSec {
			bsec[k] = round3(v)
		}
		cov := map[string]interface{}{
			"obligations": total, "discharged": discharged,
			"checker_cmd":              fmt.Sprintf("./check %s %s", cfg.ID, *tier),
			"trusted_base":             tb,
			"functions_under_contract": funcsUnder,
			"by_backend":               byBackend,
			"solver_seconds":           bsec,
			"undecided":                append(undecided, undecidedFuncs...),
			"bounded":                  boundedOut,
			"dropped_or_abstracted":    notes,
			"known_findings_seen":      findingsSeen,
			"samples":                  samples,
			"load_seconds":             round3(loadS),
			"vacuity":                  vacuitySummary(all),
		}
		if explanation != "" {
			cov["explanation"] = explanation
		}
		if level != "proof" {
			// generic fallback keys for non-proof levels
			cov["evaluations"] = total
			cov["distinct_nontrivial"] = discharged
			cov["rule"] = "one evaluation per generated proof obligation; non-trivial = discharged by an SMT solver (not syntactically true)"
			if _, ok := cov["explanation"]; !ok {
				cov["explanation"] = "level " + level
			}
		}
		ev := map[string]interface{}{
			"property_id": cfg.ID, "tier": *tier, "seed": seed, "level": level,
			"coverage": cov, "assumptions": assumptions, "wall_s": round3(wall), "violations": violations,
		}
		os.MkdirAll(filepath.Join(*verif, "evidence"), 0o755)
		data, _ := json.MarshalIndent(ev, "", " ")
		if err := os.WriteFile(filepath.Join(*verif, "evidence", cfg.ID+".json"), data, 0o644); err != nil {
			fmt.Fprintln(os.Stderr, "ENGINE-FAILURE:", err)
			return 2
		}
	}
	if total == 0 && len(cfg.Bounded) == 0 {
		fmt.Fprintln(os.Stderr, "ENGINE-FAILURE: zero obligations generated")
		return 2
	}
	return exit
}

func vacuitySummary(all []*oblResult) map[string]int {
	m := map[string]int{}
	for _, r := range all {
		if r.O.ExpectSat && r.O.Finding == "" {
			m[r.Out]++
		}
	}
	return m
}

func firstLine(s string) string {
	s = strings.TrimSpace(s)
	if i := strings.Index(s, "\n"); i >= 0 {
		s = s[:i]
	}
	if len(s) > 200 {
		s = s[:200]
	}
	return s
}

func round3(f float64) float64 { return float64(int(f*1000+0.5)) / 1000 }

// otherPropFinding: id is an open known finding recorded for a different property.
func otherPropFinding(known []KnownFinding, id, prop string) bool {
	for i := range known {
		if known[i].ID == id && known[i].Status == "open" && known[i].Property != prop {
			return true
		}
	}
	return false
}

func selected(name string, pf PropFunc) bool {
	inc := len(pf.Include) == 0
	for _, g := range pf.Include {
		if matchGlob(g, name) {
			inc = true
		}
	}
	if !inc {
		return false
	}
	for _, g := range pf.Exclude {
		if matchGlob(g, name) {
			return false
		}
	}
	return true
}

func firstFunc(p *Program) *ssaFunction {
	var ks []string
	for k := range p.funcs {
		ks = append(ks, k)
	}
	sort.Strings(ks)
	for _, k := range ks {
		if f := p.funcs[k]; f.Pkg != nil && len(f.Blocks) > 0 {
			return f
		}
	}
	return nil
}


var callSiteRe = regexp.MustCompile(`^(.*\.call\..*)\.(\d+)\.(requires\..*)$`)

// siblingCallSite: the obligation is a callee precondition at a call site that the baseline does not know, in a
// function whose other call sites of the same callee discharge the same clause in the baseline — i.e. the change
// added (or renumbered) a call to a contracted sink. A refutation there is a new unguarded sink call, not an
// unstable obligation.
func siblingCallSite(name string, expected map[string]bool) bool {
	// an additional rewrite template in a function whose reviewed template is in the baseline
	if i := strings.LastIndex(name, ".alt"); i > 0 && strings.Contains(name, ".bucket.") && expected[name[:i]] {
		return true
	}
	m := callSiteRe.FindStringSubmatch(name)
	if m == nil {
		return false
	}
	callee := func(prefix string) string {
		if i := strings.Index(prefix, ".call."); i >= 0 {
			return prefix[i:]
		}
		return prefix
	}
	for e := range expected {
		// the same precondition of the same contracted callee, discharged at another call site (in this or in
		// another function under contract)
		if em := callSiteRe.FindStringSubmatch(e); em != nil && callee(em[1]) == callee(m[1]) && em[3] == m[3] {
			return true
		}
	}
	return false
}
