package main

// Contract expression language: lexer + Pratt parser.
//
// Grammar (precedence low → high):
//   quant   := ("forall"|"exists") binders [ "{" triggers "}" ] "::" expr
//   binders := name [type] { "," name [type] } | name "in" expr ".." expr | name "in" "keys" "(" expr ")"
//   expr    := cond ? expr : expr | a <==> b | a ==> b | a || b | a && b | !a
//            | a (==|!=|<|<=|>|>=) b | a "in" "{" list "}" | + - | * / % | unary - | postfix
//   postfix := primary { "." name | "[" expr "]" | "[" expr ":" expr "]" | "(" args ")" }
//   primary := int | 'c' | "str" | name | "(" expr ")" | old(expr) | pre(expr)

import (
	"fmt"
	"math/big"
	"strconv"
	"strings"
)

type tokKind int

const (
	tEOF tokKind = iota
	tIdent
	tInt
	tStr
	tChar
	tOp
)

type stok struct {
	k   tokKind
	s   string
	pos int
}

func lexSpec(src string) ([]stok, error) {
	var toks []stok
	i := 0
	for i < len(src) {
		c := src[i]
		switch {
		case c == ' ' || c == '\t' || c == '\n' || c == '\r':
			i++
		case c >= '0' && c <= '9':
			j := i
			for j < len(src) && (isAlnum(src[j]) || src[j] == '_') {
				j++
			}
			toks = append(toks, stok{tInt, strings.ReplaceAll(src[i:j], "_", ""), i})
			i = j
		case isAlpha(c):
			j := i
			for j < len(src) && (isAlnum(src[j]) || src[j] == '_') {
				j++
			}
			toks = append(toks, stok{tIdent, src[i:j], i})
			i = j
		case c == '"':
			j := i + 1
			for j < len(src) && src[j] != '"' {
				if src[j] == '\\' {
					j++
				}
				j++
			}
			if j >= len(src) {
				return nil, fmt.Errorf("unterminated string at %d", i)
			}
			s, err := strconv.Unquote(src[i : j+1])
			if err != nil {
				return nil, fmt.Errorf("bad string %s: %v", src[i:j+1], err)
			}
			toks = append(toks, stok{tStr, s, i})
			i = j + 1
		case c == '\'':
			j := i + 1
			for j < len(src) && src[j] != '\'' {
				if src[j] == '\\' {
					j++
				}
				j++
			}
			if j >= len(src) {
				return nil, fmt.Errorf("unterminated char at %d", i)
			}
			r, _, _, err := strconv.UnquoteChar(src[i+1:j], '\'')
			if err != nil {
				return nil, fmt.Errorf("bad char %s: %v", src[i:j+1], err)
			}
			toks = append(toks, stok{tChar, strconv.Itoa(int(r)), i})
			i = j + 1
		default:
			ops := []string{"<==>", "==>", "::", "..", "==", "!=", "<=", ">=", "&&", "||", "<<", ">>"}
			matched := false
			for _, op := range ops {
				if strings.HasPrefix(src[i:], op) {
					toks = append(toks, stok{tOp, op, i})
					i += len(op)
					matched = true
					break
				}
			}
			if !matched {
				if strings.ContainsRune("+-*/%<>!()[]{},.:?&|^", rune(c)) {
					toks = append(toks, stok{tOp, string(c), i})
					i++
				} else {
					return nil, fmt.Errorf("unexpected %q at %d in %q", c, i, src)
				}
			}
		}
	}
	toks = append(toks, stok{tEOF, "", len(src)})
	return toks, nil
}

func isAlpha(c byte) bool { return c == '_' || (c >= 'a' && c <= 'z') || (c >= 'A' && c <= 'Z') }
func isAlnum(c byte) bool { return isAlpha(c) || (c >= '0' && c <= '9') }

// Expr is a node of the contract expression AST.
type Expr struct {
	Op   string  // "int","str","name","call","index","slice","field","un","bin","cond","forall","exists","old","pre","inset"
	S    string  // literal text / operator / name
	Args []*Expr // operands
	// quantifier binders
	Binders  []Binder
	Triggers [][]*Expr
}

type Binder struct {
	Name string
	Type string // "" ⇒ int
	Lo   *Expr  // range form
	Hi   *Expr
	Keys *Expr // keys(m) form
}

func (e *Expr) String() string {
	if e == nil {
		return "<nil>"
	}
	switch e.Op {
	case "int", "name":
		return e.S
	case "str":
		return strconv.Quote(e.S)
	case "call":
		var a []string
		for _, x := range e.Args {
			a = append(a, x.String())
		}
		return e.S + "(" + strings.Join(a, ", ") + ")"
	case "index":
		return e.Args[0].String() + "[" + e.Args[1].String() + "]"
	case "slice":
		return e.Args[0].String() + "[" + e.Args[1].String() + ":" + e.Args[2].String() + "]"
	case "field":
		return e.Args[0].String() + "." + e.S
	case "un":
		return e.S + e.Args[0].String()
	case "bin":
		return "(" + e.Args[0].String() + " " + e.S + " " + e.Args[1].String() + ")"
	case "cond":
		return "(" + e.Args[0].String() + " ? " + e.Args[1].String() + " : " + e.Args[2].String() + ")"
	case "old", "pre":
		return e.Op + "(" + e.Args[0].String() + ")"
	case "forall", "exists":
		var b []string
		for _, x := range e.Binders {
			b = append(b, x.Name)
		}
		return "(" + e.Op + " " + strings.Join(b, ",") + " :: " + e.Args[0].String() + ")"
	case "inset":
		var a []string
		for _, x := range e.Args[1:] {
			a = append(a, x.String())
		}
		return e.Args[0].String() + " in {" + strings.Join(a, ",") + "}"
	}
	return e.Op
}

type specParser struct {
	toks []stok
	p    int
	src  string
}

func parseSpecExpr(src string) (e *Expr, err error) {
	toks, err := lexSpec(src)
	if err != nil {
		return nil, err
	}
	sp := &specParser{toks: toks, src: src}
	defer func() {
		if r := recover(); r != nil {
			if pe, ok := r.(parseErr); ok {
				err = fmt.Errorf("%s (in %q)", string(pe), src)
				return
			}
			panic(r)
		}
	}()
	e = sp.expr(0)
	if sp.peek().k != tEOF {
		sp.fail("trailing input at %q", sp.peek().s)
	}
	return e, nil
}

type parseErr string

func (sp *specParser) fail(f string, a ...interface{}) { panic(parseErr(fmt.Sprintf(f, a...))) }
func (sp *specParser) peek() stok                      { return sp.toks[sp.p] }
func (sp *specParser) next() stok                      { t := sp.toks[sp.p]; sp.p++; return t }
func (sp *specParser) isOp(s string) bool {
	t := sp.peek()
	return t.k == tOp && t.s == s
}
func (sp *specParser) isIdent(s string) bool {
	t := sp.peek()
	return t.k == tIdent && t.s == s
}
func (sp *specParser) expectOp(s string) {
	if !sp.isOp(s) {
		sp.fail("expected %q, got %q", s, sp.peek().s)
	}
	sp.p++
}

var binPrec = map[string]int{
	"<==>": 1, "==>": 2, "||": 3, "&&": 4,
	"==": 6, "!=": 6, "<": 6, "<=": 6, ">": 6, ">=": 6, "in": 6,
	"+": 7, "-": 7, "|": 7, "^": 7,
	"*": 8, "/": 8, "%": 8, "<<": 8, ">>": 8, "&": 8,
}

func (sp *specParser) expr(minPrec int) *Expr {
	if sp.isIdent("forall") || sp.isIdent("exists") {
		return sp.quant()
	}
	lhs := sp.unary()
	for {
		t := sp.peek()
		var op string
		if t.k == tOp {
			op = t.s
		} else if t.k == tIdent && t.s == "in" {
			op = "in"
		} else {
			break
		}
		if op == "?" && minPrec <= 0 {
			sp.next()
			a := sp.expr(0)
			sp.expectOp(":")
			b := sp.expr(0)
			lhs = &Expr{Op: "cond", Args: []*Expr{lhs, a, b}}
			continue
		}
		prec, ok := binPrec[op]
		if !ok || prec < minPrec {
			break
		}
		sp.next()
		if op == "in" {
			sp.expectOp("{")
			args := []*Expr{lhs}
			for !sp.isOp("}") {
				args = append(args, sp.expr(0))
				if sp.isOp(",") {
					sp.next()
				}
			}
			sp.expectOp("}")
			lhs = &Expr{Op: "inset", Args: args}
			continue
		}
		var rhs *Expr
		if op == "==>" || op == "<==>" {
			rhs = sp.expr(prec) // right assoc
		} else {
			rhs = sp.expr(prec + 1)
		}
		lhs = &Expr{Op: "bin", S: op, Args: []*Expr{lhs, rhs}}
	}
	return lhs
}

func (sp *specParser) quant() *Expr {
	q := sp.next().s
	e := &Expr{Op: q}
	for {
		t := sp.next()
		if t.k != tIdent {
			sp.fail("binder name expected, got %q", t.s)
		}
		b := Binder{Name: t.s}
		if sp.isIdent("in") {
			sp.next()
			if sp.isIdent("keys") {
				sp.next()
				sp.expectOp("(")
				b.Keys = sp.expr(0)
				sp.expectOp(")")
			} else {
				b.Lo = sp.expr(7)
				sp.expectOp("..")
				b.Hi = sp.expr(7)
			}
		} else if sp.peek().k == tIdent || sp.isOp("*") {
			// a Go type: optional pointer stars, identifier, optional package qualifier
			for sp.isOp("*") {
				sp.next()
				b.Type += "*"
			}
			t := sp.next()
			if t.k != tIdent {
				sp.fail("binder type expected, got %q", t.s)
			}
			b.Type += t.s
			if sp.isOp(".") {
				sp.next()
				b.Type += "." + sp.next().s
			}
		}
		e.Binders = append(e.Binders, b)
		if sp.isOp(",") {
			sp.next()
			continue
		}
		break
	}
	// names declared without type before a typed one share that type: "a, b string"
	for i := len(e.Binders) - 2; i >= 0; i-- {
		if e.Binders[i].Type == "" && e.Binders[i].Lo == nil && e.Binders[i].Keys == nil &&
			e.Binders[i+1].Type != "" && e.Binders[i+1].Lo == nil {
			e.Binders[i].Type = e.Binders[i+1].Type
		}
	}
	for sp.isOp("{") {
		sp.next()
		var trig []*Expr
		for !sp.isOp("}") {
			trig = append(trig, sp.expr(0))
			if sp.isOp(",") {
				sp.next()
			}
		}
		sp.expectOp("}")
		e.Triggers = append(e.Triggers, trig)
	}
	sp.expectOp("::")
	e.Args = []*Expr{sp.expr(0)}
	return e
}

func (sp *specParser) unary() *Expr {
	if sp.isOp("!") {
		sp.next()
		return &Expr{Op: "un", S: "!", Args: []*Expr{sp.unary()}}
	}
	if sp.isOp("-") {
		sp.next()
		return &Expr{Op: "un", S: "-", Args: []*Expr{sp.unary()}}
	}
	return sp.postfix()
}

func (sp *specParser) postfix() *Expr {
	e := sp.primary()
	for {
		switch {
		case sp.isOp("."):
			sp.next()
			t := sp.next()
			if t.k != tIdent {
				sp.fail("field name expected")
			}
			e = &Expr{Op: "field", S: t.s, Args: []*Expr{e}}
		case sp.isOp("["):
			sp.next()
			var lo *Expr
			if sp.isOp(":") {
				lo = &Expr{Op: "int", S: "0"}
			} else {
				lo = sp.expr(0)
			}
			if sp.isOp(":") {
				sp.next()
				var hi *Expr
				if sp.isOp("]") {
					hi = &Expr{Op: "call", S: "len", Args: []*Expr{e}}
				} else {
					hi = sp.expr(0)
				}
				sp.expectOp("]")
				e = &Expr{Op: "slice", Args: []*Expr{e, lo, hi}}
			} else {
				sp.expectOp("]")
				e = &Expr{Op: "index", Args: []*Expr{e, lo}}
			}
		case sp.isOp("(") && (e.Op == "name" || e.Op == "field"):
			sp.next()
			var args []*Expr
			for !sp.isOp(")") {
				args = append(args, sp.expr(0))
				if sp.isOp(",") {
					sp.next()
				}
			}
			sp.expectOp(")")
			name := e.S
			if e.Op == "field" {
				name = e.Args[0].String() + "." + e.S
			}
			switch name {
			case "old", "pre":
				if len(args) != 1 {
					sp.fail("%s takes one argument", name)
				}
				e = &Expr{Op: name, Args: args}
			default:
				e = &Expr{Op: "call", S: name, Args: args}
			}
		default:
			return e
		}
	}
}

func (sp *specParser) primary() *Expr {
	t := sp.next()
	switch t.k {
	case tInt:
		v, err := strconv.ParseInt(t.s, 0, 64)
		if err != nil {
			b, ok := new(big.Int).SetString(t.s, 0)
			if !ok {
				sp.fail("bad int %q", t.s)
			}
			return &Expr{Op: "int", S: b.String()}
		}
		return &Expr{Op: "int", S: strconv.FormatInt(v, 10)}
	case tChar:
		return &Expr{Op: "int", S: t.s}
	case tStr:
		return &Expr{Op: "str", S: t.s}
	case tIdent:
		return &Expr{Op: "name", S: t.s}
	case tOp:
		if t.s == "(" {
			e := sp.expr(0)
			sp.expectOp(")")
			return e
		}
	}
	sp.fail("unexpected token %q", t.s)
	return nil
}
