package main

import (
	"fmt"
	"go/token"
	"go/types"
	"sort"
	"strings"

	"golang.org/x/tools/go/ssa"
)

// funcKey is the normalised name used to look up contracts.
func funcKey(fn *ssa.Function) string {
	if fn == nil {
		return "<nil>"
	}
	name := fn.Name()
	if fn.Signature.Recv() != nil {
		rt := fn.Signature.Recv().Type()
		return "(" + shortType(rt) + ")." + name
	}
	// closures: Parent chain
	if fn.Parent() != nil {
		pk := funcKey(fn.Parent())
		// fn.Name() is e.g. "Outer$1"
		if i := strings.LastIndex(name, "$"); i >= 0 {
			return pk + name[i:]
		}
	}
	if fn.Pkg != nil {
		return fn.Pkg.Pkg.Name() + "." + name
	}
	if fn.Object() != nil && fn.Object().Pkg() != nil {
		return fn.Object().Pkg().Name() + "." + name
	}
	return name
}

func calleeName(c *ssa.CallCommon) string {
	if c.IsInvoke() {
		return "(" + shortType(c.Value.Type()) + ")." + c.Method.Name()
	}
	switch f := c.Value.(type) {
	case *ssa.Function:
		return funcKey(f)
	case *ssa.Builtin:
		return "builtin." + f.Name()
	case *ssa.MakeClosure:
		return funcKey(f.Fn.(*ssa.Function))
	}
	return "<dynamic>"
}

var ignoredCallPrefixes = []string{
	"(*sync.Mutex).", "(*sync.RWMutex).", "(*sync.WaitGroup).", "(*sync.Once).",
	"(*zerolog.Event).", "(zerolog.Logger).", "(*zerolog.Logger).", "(zerolog.Context).", "(*zerolog.Array).",
	"metrics.", "(*metrics.", "(*atomic.", "log.", "(*log.",
}

func ignoredCall(name string) bool {
	for _, p := range ignoredCallPrefixes {
		if strings.HasPrefix(name, p) {
			return true
		}
	}
	return false
}

// call executes one call instruction and then the ghost assignments anchored after it.
func (g *gen) call(x *ssa.Call, st State, reach string) string {
	anchored := g.fc != nil && (len(g.fc.GhostSets) > 0 || len(g.fc.PointAsserts) > 0) && !g.isInline
	name, nth := "", 0
	if anchored {
		name = calleeName(&x.Call)
		nth = g.callOrdinal(x, name)
		if len(g.fc.GhostSets) > 0 {
			var cargs []Val
			for _, a := range x.Call.Args {
				cargs = append(cargs, g.redirect(g.val(a)))
			}
			g.ghostSetArgs, g.ghostSetBefore = cargs, true
			g.applyGhostSets(false, name, nth, nil, st)
			g.ghostSetArgs, g.ghostSetBefore = nil, false
		}
		for _, pa := range g.fc.PointAsserts {
			if strings.TrimPrefix(pa.Callee, "(") != strings.TrimPrefix(name, "(") || pa.Nth != nth {
				continue
			}
			e := g.newEnv(st, g.entry)
			if g.curBlock != nil {
				e.atBlock, e.atEnd = g.curBlock, true
				e.curParams = true
			}
			for _, a := range x.Call.Args {
				e.callArgs = append(e.callArgs, g.redirect(g.val(a)))
			}
			t, err := g.elabBool(pa.Clause.E, e)
			if err != nil {
				g.contractError(pa.Clause, err)
				continue
			}
			g.obligeClause("assert", fmt.Sprintf("%s.assert.%s", g.fnKey, pa.Clause.Label), pa.Clause, reach, t)
			g.pointAssertsApplied++
		}
	}
	reach = g.call0(x, st, reach)
	if len(g.volatile) > 0 && calleeName(&x.Call) == "(*sync.WaitGroup).Wait" {
		// The goroutines this function spawned have finished (assumption: the WaitGroup covers all of them):
		// the cells they captured hold their final, arbitrary but from now on stable, values.
		for ref := range g.volatile {
			if t, ok := g.volatileT[ref]; ok {
				g.havocThrough(Val{T: ref, S: "Int", GoT: t}, t, st, reach, 0)
			}
			delete(g.volatile, ref)
		}
		g.ctx.note("wg.Wait(): cells captured by spawned goroutines settle (assumed: the WaitGroup covers every goroutine spawned so far)")
	}
	if anchored && len(g.fc.GhostSets) > 0 {
		var results []Val
		if rv, ok := g.vals[x]; ok {
			if tt, ok := x.Type().(*types.Tuple); ok {
				for i := 0; i < tt.Len(); i++ {
					results = append(results, Val{T: fmt.Sprintf("(%s..%d %s)", rv.S, i, rv.T), S: g.ctx.sortOf(tt.At(i).Type()), GoT: tt.At(i).Type()})
				}
			} else {
				results = []Val{rv}
			}
		}
		var cargs []Val
		for _, a := range x.Call.Args {
			cargs = append(cargs, g.redirect(g.val(a)))
		}
		g.ghostSetArgs = cargs
		g.applyGhostSets(false, name, nth, results, st)
		g.ghostSetArgs = nil
	}
	return reach
}

// applyGhostSets runs the ghost assignments (`set G = E ...`) of the function under verification that are
// anchored at this point. The assigned ghost must be listed in the function's modifies clause, so that
// callers see it change.
func (g *gen) applyGhostSets(entry bool, callee string, nth int, results []Val, st State) {
	if g.fc == nil || g.isInline {
		return
	}
	atReturn := callee == "<return>"
	for _, gs := range g.fc.GhostSets {
		if gs.AtReturn != atReturn {
			continue
		}
		if !atReturn && gs.AtEntry != entry {
			continue
		}
		if !atReturn && !entry && (strings.TrimPrefix(gs.Callee, "(") != strings.TrimPrefix(callee, "(") || gs.Nth != nth || gs.Before != g.ghostSetBefore) {
			continue
		}
		cl := Clause{Label: "set." + gs.Name, Src: gs.Src, File: gs.File, Line: gs.Line}
		if _, ok := g.cs.GhostVars[gs.Name]; !ok {
			g.contractError(cl, fmt.Errorf("set: %q is not a ghost var", gs.Name))
			continue
		}
		listed := false
		for _, m := range g.fc.Modifies {
			if m == gs.Name {
				listed = true
			}
		}
		if !listed {
			g.contractError(cl, fmt.Errorf("set: ghost %q must be listed in modifies", gs.Name))
			continue
		}
		e := g.newEnv(st, g.entry)
		e.results = results
		e.callArgs = g.ghostSetArgs
		if !entry && g.curBlock != nil {
			// source locals already assigned at this point may be named
			e.atBlock, e.atEnd = g.curBlock, true
			e.curParams = true
		}
		v, err := g.elab1(gs.E, e)
		if err != nil {
			g.contractError(cl, err)
			continue
		}
		comp := g.ghostComp(gs.Name)
		if v.S != g.ctx.compSort[comp] {
			g.contractError(cl, fmt.Errorf("set: %s has sort %s, expression has %s", gs.Name, g.ctx.compSort[comp], v.S))
			continue
		}
		g.stSet(st, comp, g.define("ghostset_"+gs.Name, g.ctx.compSort[comp], v.T))
		g.ghostSetsApplied++
	}
}

func (g *gen) call0(x *ssa.Call, st State, reach string) string {
	c := &x.Call
	name := calleeName(c)
	// builtins
	if b, ok := c.Value.(*ssa.Builtin); ok {
		return g.builtin(x, b, st, reach)
	}
	var args []Val
	var argTypes []types.Type
	if c.IsInvoke() {
		args = append(args, g.val(c.Value))
		argTypes = append(argTypes, c.Value.Type())
	}
	for _, a := range c.Args {
		args = append(args, g.val(a))
		argTypes = append(argTypes, a.Type())
	}
	// atomics are modelled as plain accesses
	if strings.HasPrefix(name, "(*atomic.") {
		if g.atomicCall(x, name, args, st, reach) {
			return reach
		}
	}
	if strings.HasPrefix(name, "atomic.") && len(args) > 0 {
		if g.atomicFunc(x, name, args, st, reach) {
			return reach
		}
	}
	if ignoredCall(name) && g.lookupContract(c, name) == nil {
		g.ctx.note("dropped call: " + strings.SplitN(name, ")", 2)[0] + ")")
		if x.Type() != nil && !isEmptyTuple(x.Type()) {
			g.vals[x] = g.havocVal(x.Name(), x.Type(), st, reach)
			// builder-style APIs return their receiver; unconstrained is fine
		}
		return reach
	}
	// contract?
	if fc := g.lookupContract(c, name); fc != nil {
		if !fc.Extern && len(fc.ParamNames) != len(args) {
			// the callee's signature changed under its contract: the contract cannot be applied at this call;
			// the callee is summarised by its write set like any uncontracted callee (its own obligations are
			// still checked in its own verification, without the preconditions that can no longer be stated)
			g.ctx.note(fmt.Sprintf("contract of %s does not fit this call (%d parameters declared, %d passed): callee treated as uncontracted", fc.Key, len(fc.ParamNames), len(args)))
		} else {
			return g.callContract(x, fc, name, args, argTypes, st, reach)
		}
	}
	// inline small in-package helpers on request
	if callee, ok := c.Value.(*ssa.Function); ok {
		if g.prog.shouldInline(callee) && g.inlineDepth < 4 && len(callee.Blocks) > 0 {
			return g.callInline(x, callee, args, st, reach)
		}
	}
	// small, loop-free, uncontracted helpers of a loaded package are inlined rather than summarised: a proof must
	// not break because verified logic was moved into a helper (extract-function refactors)
	if callee, ok := c.Value.(*ssa.Function); ok && g.prog.autoInlinable(callee) && g.inlineDepth < 3 {
		if r, done := g.tryInline(x, callee, args, st, reach); done {
			return r
		}
	}
	// callee without contract whose body is loaded: havoc exactly the heap components it (transitively)
	// writes, as found by a dry symbolic run — a write-set summary
	if callee, ok := c.Value.(*ssa.Function); ok && len(callee.Blocks) > 0 && callee.Pkg != nil && g.prog.isLoaded(callee) {
		g.ctx.note("callee summarised by its write set: " + name)
		g.applyWriteSet(callee, st)
		if x.Type() != nil && !isEmptyTuple(x.Type()) {
			g.vals[x] = g.havocVal(x.Name(), x.Type(), st, reach)
		}
		return reach
	}
	// unknown callee: result havoc, pointees of pointer arguments havoc, everything else framed
	g.ctx.note("unknown call (result havoc, frame assumed): " + name)
	if name == "<dynamic>" {
		// stored callbacks / function values: external, assumed not to write the modelled heap
		g.ctx.assumed["calls through function values (callbacks) are assumed not to modify the modelled heap"] = true
	} else {
		g.ctx.assumed["external call assumed not to touch modelled heap except through pointer arguments: "+name] = true
		g.havocPointees(args, argTypes, st, reach, name)
	}
	if x.Type() != nil && !isEmptyTuple(x.Type()) {
		g.vals[x] = g.havocVal(x.Name(), x.Type(), st, reach)
		if name != "<dynamic>" {
			// assumption: a function outside the repository does not return one of the repository's own
			// sentinel errors (it cannot name them)
			isErr := func(t types.Type) bool {
				n, ok := t.(*types.Named)
				return ok && n.Obj().Pkg() == nil && n.Obj().Name() == "error"
			}
			rv := g.vals[x]
			if tt, ok := x.Type().(*types.Tuple); ok {
				for i := 0; i < tt.Len(); i++ {
					if isErr(tt.At(i).Type()) {
						c := fmt.Sprintf("(%s..%d %s)", rv.S, i, rv.T)
						g.ctx.assume("(not (and ((_ is iface-mk) " + c + ") (= (i.tag " + c + ") 1000001)))")
					}
				}
			} else if isErr(x.Type()) {
				g.ctx.assume("(not (and ((_ is iface-mk) " + rv.T + ") (= (i.tag " + rv.T + ") 1000001)))")
			}
			g.ctx.assumed["library functions do not return the repository's own sentinel errors"] = true
		}
	}
	return reach
}

func isEmptyTuple(t types.Type) bool {
	tt, ok := t.(*types.Tuple)
	return ok && tt.Len() == 0
}

func (g *gen) lookupContract(c *ssa.CallCommon, name string) *FuncContract {
	if fc, ok := g.cs.Funcs[name]; ok {
		return fc
	}
	// value-receiver method invoked through pointer etc.: try the other spelling
	if strings.HasPrefix(name, "(*") {
		if fc, ok := g.cs.Funcs["("+name[2:]]; ok {
			return fc
		}
	}
	return nil
}

// havocPointees: an unknown callee may write through the pointers it is given.
func (g *gen) havocPointees(args []Val, argTypes []types.Type, st State, reach, callee string) {
	for i, a := range args {
		g.havocThrough(a, argTypes[i], st, reach, 0)
	}
}

func (g *gen) havocThrough(a Val, t types.Type, st State, reach string, depth int) {
	if a.L != nil {
		// interior pointer: havoc that location
		hv := g.havocVal("ext", a.L.GoT, st, reach)
		g.storeLoc(st, a.L, hv, a.L.GoT)
		return
	}
	switch u := t.Underlying().(type) {
	case *types.Pointer:
		switch su := locUnder(u.Elem()).(type) {
		case *types.Struct:
			ss := g.ctx.sortOf(u.Elem())
			if isSyncType(u.Elem()) {
				return
			}
			for i := 0; i < su.NumFields(); i++ {
				comp := g.ctx.fieldComp(ss, su, i)
				hv := g.havocVal("ext_"+su.Field(i).Name(), su.Field(i).Type(), st, reach)
				g.locWrite(st, &Loc{Comp: comp, Idx: []string{a.T}}, hv.T)
			}
		case *types.Array:
			es := g.ctx.sortOf(su.Elem())
			hv := g.ctx.fresh("ext_arr", "(Array Int "+es+")")
			g.locWrite(st, &Loc{Comp: g.ctx.elemComp(es), Idx: []string{a.T}}, hv)
		default:
			s := g.ctx.sortOf(u.Elem())
			hv := g.havocVal("ext_cell", u.Elem(), st, reach)
			g.locWrite(st, &Loc{Comp: g.ctx.cellComp(s), Idx: []string{a.T}}, hv.T)
		}
	case *types.Slice:
		es := g.ctx.sortOf(u.Elem())
		if a.T == "(mk-slice 0 0 0 0)" {
			return // nil slice: no elements to write
		}
		// contents of the slice window may change
		comp := g.ctx.elemComp(es)
		old := "(select " + g.stGet(st, comp) + " (s.ref " + a.T + "))"
		na := g.ctx.fresh("ext_elems", "(Array Int "+es+")")
		g.ctx.assume("(forall ((i Int)) (! (=> (or (< i (s.off " + a.T + ")) (>= i (+ (s.off " + a.T + ") (s.len " + a.T + ")))) (= (select " + na + " i) (select " + old + " i))) :pattern ((select " + na + " i))))")
		if es == "Int" {
			if bt, ok := u.Elem().Underlying().(*types.Basic); ok {
				lo, hi := intRange(bt)
				g.ctx.assume("(forall ((i Int)) (! (and (<= " + smtInt(lo) + " (select " + na + " i)) (<= (select " + na + " i) " + smtInt(hi) + ")) :pattern ((select " + na + " i))))")
			}
		}
		g.locWrite(st, &Loc{Comp: comp, Idx: []string{"(s.ref " + a.T + ")"}}, na)
	case *types.Interface:
		if inner, ok := g.boxedLocs()[a.T]; ok && depth < 2 {
			g.havocThrough(inner, inner.GoT, st, reach, depth+1)
		}
	}
}

func isSyncType(t types.Type) bool {
	s := shortType(t)
	return strings.HasPrefix(s, "sync.") || strings.HasPrefix(s, "atomic.")
}

// atomicFunc models the function forms atomic.LoadInt64(&x), atomic.AddInt64(&x, d), … as plain accesses.
func (g *gen) atomicFunc(x *ssa.Call, name string, args []Val, st State, reach string) bool {
	op := strings.TrimPrefix(name, "atomic.")
	a0 := g.redirect(args[0])
	loc := g.derefLoc(a0, x.Call.Args[0].Type(), st, reach, x.Pos())
	if loc.Comp == "" {
		return false
	}
	cur := g.loadLoc(st, loc)
	g.ctx.note("atomic op modelled as plain access")
	switch {
	case strings.HasPrefix(op, "Load"):
		g.setVal(x, cur)
		if inv := g.typeInv(g.vals[x].T, x.Type(), st); inv != "true" {
			g.ctx.assume(inv)
		}
	case strings.HasPrefix(op, "Store"):
		g.locWrite(st, loc, args[1].T)
	case strings.HasPrefix(op, "Add"):
		nv := g.define("atomic_add", "Int", g.wrap("(+ "+cur+" "+args[1].T+")", x.Type(), true))
		g.locWrite(st, loc, nv)
		g.vals[x] = Val{T: nv, S: "Int", GoT: x.Type()}
	case strings.HasPrefix(op, "Swap"):
		old := g.define("atomic_old", g.ctx.sortOf(x.Type()), cur)
		g.locWrite(st, loc, args[1].T)
		g.vals[x] = Val{T: old, S: g.ctx.sortOf(x.Type()), GoT: x.Type()}
	case strings.HasPrefix(op, "CompareAndSwap"):
		ok := g.define("cas_ok", "Bool", "(= "+cur+" "+args[1].T+")")
		g.locWrite(st, loc, "(ite "+ok+" "+args[2].T+" "+cur+")")
		g.vals[x] = Val{T: ok, S: "Bool", GoT: x.Type()}
	default:
		return false
	}
	return true
}

// atomicCall models sync/atomic typed values (Int64, Bool, …) as plain cells of their struct field "v".
func (g *gen) atomicCall(x *ssa.Call, name string, args []Val, st State, reach string) bool {
	c := &x.Call
	recvT := c.Args[0].Type().Underlying().(*types.Pointer).Elem()
	su, ok := recvT.Underlying().(*types.Struct)
	if !ok {
		return false
	}
	fi := -1
	for i := 0; i < su.NumFields(); i++ {
		if su.Field(i).Name() == "v" {
			fi = i
		}
	}
	if fi < 0 {
		return false
	}
	ss := g.ctx.sortOf(recvT)
	ft := su.Field(fi).Type()
	var loc *Loc
	if args[0].L != nil {
		nl := *args[0].L
		nl.Path = append(append([]pathStep{}, args[0].L.Path...), pathStep{structSort: ss, field: fi})
		nl.Sort, nl.GoT = g.ctx.sortOf(ft), ft
		loc = &nl
	} else {
		loc = &Loc{Comp: g.ctx.fieldComp(ss, su, fi), Idx: []string{args[0].T}, Sort: g.ctx.sortOf(ft), GoT: ft}
	}
	method := name[strings.LastIndex(name, ".")+1:]
	cur := g.loadLoc(st, loc)
	isBool := strings.Contains(name, "atomic.Bool")
	toVal := func(raw string) string {
		if isBool {
			return "(not (= " + raw + " 0))"
		}
		return raw
	}
	fromVal := func(v string) string {
		if isBool {
			return "(ite " + v + " 1 0)"
		}
		return v
	}
	g.ctx.note("atomic op modelled as plain access")
	switch method {
	case "Load":
		g.setVal(x, toVal(cur))
		if inv := g.typeInv(g.vals[x].T, x.Type(), st); inv != "true" {
			g.ctx.assume(inv)
		}
	case "Store":
		g.locWrite(st, loc, fromVal(args[1].T))
	case "Add":
		nv := g.define("atomic_add", "Int", g.wrap("(+ "+cur+" "+args[1].T+")", x.Type(), true))
		g.locWrite(st, loc, nv)
		g.vals[x] = Val{T: nv, S: "Int", GoT: x.Type()}
	case "Swap":
		old := g.define("atomic_old", g.ctx.sortOf(x.Type()), toVal(cur))
		g.locWrite(st, loc, fromVal(args[1].T))
		g.vals[x] = Val{T: old, S: g.ctx.sortOf(x.Type()), GoT: x.Type()}
	case "CompareAndSwap":
		ok := g.define("cas_ok", "Bool", "(= "+cur+" "+fromVal(args[1].T)+")")
		g.locWrite(st, loc, "(ite "+ok+" "+fromVal(args[2].T)+" "+cur+")")
		g.vals[x] = Val{T: ok, S: "Bool", GoT: x.Type()}
	default:
		return false
	}
	return true
}

// ------------------------------------------------------------ builtins

func (g *gen) builtin(x *ssa.Call, b *ssa.Builtin, st State, reach string) string {
	args := x.Call.Args
	switch b.Name() {
	case "len":
		v := g.val(args[0])
		switch args[0].Type().Underlying().(type) {
		case *types.Slice:
			g.setVal(x, "(s.len "+v.T+")")
		case *types.Basic:
			g.setVal(x, "(slen "+v.T+")")
		case *types.Map:
			k, _ := mapKV(args[0].Type())
			_, _, size := g.ctx.mapCompsT(args[0].Type())
			n := g.define(x.Name(), "Int", "(ite (= "+v.T+" 0) 0 (select "+g.stGet(st, size)+" "+v.T+"))")
			// a map holds at most as many entries as fit in memory (same bound as slice lengths)
			g.ctx.assume("(and (>= " + n + " 0) (<= " + n + " 4611686018427387904))")
			// a Go map's length is the cardinality of its key set; the one consequence used by code that
			// prunes empty index entries is: len(m) == 0 iff m has no key (true of every real map)
			ks := g.ctx.sortOf(k)
			dom, _, _ := g.ctx.mapCompsT(args[0].Type())
			d := "(select " + g.stGet(st, dom) + " " + v.T + ")"
			g.ctx.assume("(=> (not (= " + v.T + " 0)) (= (= " + n + " 0) (forall ((k " + ks + ")) (! (not (select " + d + " k)) :pattern ((select " + d + " k))))))")
			g.vals[x] = Val{T: n, S: "Int", GoT: x.Type()}
		case *types.Array:
			g.setVal(x, fmt.Sprint(args[0].Type().Underlying().(*types.Array).Len()))
		case *types.Pointer:
			g.setVal(x, fmt.Sprint(args[0].Type().Underlying().(*types.Pointer).Elem().Underlying().(*types.Array).Len()))
		case *types.Chan:
			// number of queued elements: a heap component indexed by the channel, changed by sends and
			// receives in this function and by callees that send or receive (sequential view: another
			// goroutine's sends/receives between two reads are not modelled)
			comp := g.ctx.comp("chanlen", "(Array Int Int)")
			n := g.define(x.Name(), "Int", "(select "+g.stGet(st, comp)+" "+v.T+")")
			g.ctx.assume("(>= " + n + " 0)")
			g.vals[x] = Val{T: n, S: "Int", GoT: x.Type()}
		default:
			hv := g.havocVal("len", x.Type(), st, reach)
			g.ctx.assume("(>= " + hv.T + " 0)")
			g.vals[x] = hv
		}
	case "cap":
		v := g.val(args[0])
		if v.S == "Slice" {
			g.setVal(x, "(s.cap "+v.T+")")
		} else {
			hv := g.havocVal("cap", x.Type(), st, reach)
			g.ctx.assume("(>= " + hv.T + " 0)")
			g.vals[x] = hv
		}
	case "append":
		g.appendCall(x, st, reach)
	case "copy":
		g.copyCall(x, st, reach)
	case "delete":
		mv, kv := g.val(args[0]), g.val(args[1])
		k, v := mapKV(args[0].Type())
		ks := g.ctx.sortOf(k)
		key := kv.T
		if ks == "Iface" && kv.S != "Iface" {
			key = g.box(kv, args[1].Type())
		}
		dom, val, size := g.ctx.mapCompsT(args[0].Type())
		was := "(select (select " + g.stGet(st, dom) + " " + mv.T + ") " + key + ")"
		// delete on nil map is a no-op: the nil map (ref 0) has no keys and zero values already
		g.locWrite(st, &Loc{Comp: size, Idx: []string{mv.T}}, "(- (select "+g.stGet(st, size)+" "+mv.T+") (ite "+was+" 1 0))")
		g.locWrite(st, &Loc{Comp: dom, Idx: []string{mv.T, key}}, "false")
		g.locWrite(st, &Loc{Comp: val, Idx: []string{mv.T, key}}, g.ctx.zero(v)) // keeps the mapWF convention
	case "min", "max":
		a := g.val(args[0])
		t := a.T
		for _, o := range args[1:] {
			ov := g.val(o)
			if a.S != "Int" {
				g.unsupportedf("min/max on %s", a.S)
			}
			if b.Name() == "min" {
				t = "(ite (<= " + t + " " + ov.T + ") " + t + " " + ov.T + ")"
			} else {
				t = "(ite (>= " + t + " " + ov.T + ") " + t + " " + ov.T + ")"
			}
		}
		g.setVal(x, t)
	case "panic":
		return "false"
	case "print", "println", "close", "clear":
		g.ctx.note("builtin " + b.Name() + " (no-op)")
	case "recover":
		g.vals[x] = g.havocVal("recover", x.Type(), st, reach)
	case "real", "imag", "complex":
		g.unsupportedf("complex numbers")
	case "ssa:wrapnilchk":
		v := g.val(args[0])
		g.vals[x] = v
	default:
		g.unsupportedf("builtin %s", b.Name())
	}
	return reach
}

func (g *gen) appendCall(x *ssa.Call, st State, reach string) {
	args := x.Call.Args
	s := g.val(args[0])
	t := g.val(args[1])
	et := x.Type().Underlying().(*types.Slice).Elem()
	es := g.ctx.sortOf(et)
	comp := g.ctx.elemComp(es)
	sl, so, sc, sr := "(s.len "+s.T+")", "(s.off "+s.T+")", "(s.cap "+s.T+")", "(s.ref "+s.T+")"
	var n string
	var tElem func(j string) string
	if t.S == "Str" { // append([]byte, string...)
		n = "(slen " + t.T + ")"
		tElem = func(j string) string { return "(sat " + t.T + " " + j + ")" }
	} else {
		n = "(s.len " + t.T + ")"
		tarr := g.define("app_src", "(Array Int "+es+")", "(select "+g.stGet(st, comp)+" (s.ref "+t.T+"))")
		tElem = func(j string) string { return "(select " + tarr + " (+ (s.off " + t.T + ") " + j + "))" }
	}
	oldArr := g.define("app_old", "(Array Int "+es+")", "(select "+g.stGet(st, comp)+" "+sr+")")
	fits := g.define("app_fits", "Bool", "(<= (+ "+sl+" "+n+") "+sc+")")
	newRef := g.allocRef(st)
	newCap := g.ctx.fresh("app_cap", "Int")
	g.ctx.assume("(and (>= " + newCap + " (+ " + sl + " " + n + ")) (<= (+ " + so + " " + newCap + ") 4611686018427387904))")
	// contents
	var newArr string
	if k, ok := g.constLen(args[1]); ok && k <= 8 {
		newArr = oldArr
		for j := 0; j < k; j++ {
			newArr = "(store " + newArr + " (+ " + so + " " + sl + " " + itoa(j) + ") " + tElem(itoa(j)) + ")"
		}
		newArr = g.define("app_new", "(Array Int "+es+")", newArr)
	} else {
		newArr = g.ctx.fresh("app_new", "(Array Int "+es+")")
		base := "(+ " + so + " " + sl + ")"
		g.ctx.assume("(forall ((j Int)) (! (= (select " + newArr + " j) (ite (and (<= " + base + " j) (< j (+ " + base + " " + n + "))) " + tElem("(- j "+base+")") + " (select " + oldArr + " j))) :pattern ((select " + newArr + " j))))")
	}
	resRef := g.define("app_ref", "Int", "(ite (and "+fits+" (not (= "+sr+" 0))) "+sr+" "+newRef+")")
	// n == 0 on a nil slice keeps nil; modelled as non-nil empty result only when something is appended
	res := "(mk-slice " + resRef + " " + so + " (+ " + sl + " " + n + ") (ite (and " + fits + " (not (= " + sr + " 0))) " + sc + " " + newCap + "))"
	res = "(ite (and (= " + n + " 0) (= " + sr + " 0)) " + s.T + " " + res + ")"
	// appending to a slice this execution allocated (or to the nil slice) writes a fresh array either way
	srcFresh := g.freshRefs[sr] || s.T == "(mk-slice 0 0 0 0)"
	if srcFresh {
		g.freshRefs[resRef] = true
	}
	g.locWrite(st, &Loc{Comp: comp, Idx: []string{resRef}}, newArr)
	g.setVal(x, res)
	if srcFresh {
		g.freshRefs["(s.ref "+g.vals[x].T+")"] = true
	}
}

// constLen: the static length of a variadic argument slice built from a fixed-size array.
func (g *gen) constLen(v ssa.Value) (int, bool) {
	if sl, ok := v.(*ssa.Slice); ok && sl.Low == nil && sl.High == nil {
		if pt, ok := sl.X.Type().Underlying().(*types.Pointer); ok {
			if at, ok := pt.Elem().Underlying().(*types.Array); ok {
				return int(at.Len()), true
			}
		}
	}
	if c, ok := v.(*ssa.Const); ok && c.Value != nil {
		return 0, false
	}
	return 0, false
}

func (g *gen) copyCall(x *ssa.Call, st State, reach string) {
	args := x.Call.Args
	d, s := g.val(args[0]), g.val(args[1])
	et := args[0].Type().Underlying().(*types.Slice).Elem()
	es := g.ctx.sortOf(et)
	comp := g.ctx.elemComp(es)
	var sn string
	var sElem func(j string) string
	if s.S == "Str" {
		sn = "(slen " + s.T + ")"
		sElem = func(j string) string { return "(sat " + s.T + " " + j + ")" }
	} else {
		sn = "(s.len " + s.T + ")"
		sarr := g.define("copy_src", "(Array Int "+es+")", "(select "+g.stGet(st, comp)+" (s.ref "+s.T+"))")
		sElem = func(j string) string { return "(select " + sarr + " (+ (s.off " + s.T + ") " + j + "))" }
	}
	n := g.define("copy_n", "Int", "(ite (<= (s.len "+d.T+") "+sn+") (s.len "+d.T+") "+sn+")")
	oldArr := g.define("copy_old", "(Array Int "+es+")", "(select "+g.stGet(st, comp)+" (s.ref "+d.T+"))")
	newArr := g.ctx.fresh("copy_new", "(Array Int "+es+")")
	base := "(s.off " + d.T + ")"
	g.ctx.assume("(forall ((j Int)) (! (= (select " + newArr + " j) (ite (and (<= " + base + " j) (< j (+ " + base + " " + n + "))) " + sElem("(- j "+base+")") + " (select " + oldArr + " j))) :pattern ((select " + newArr + " j))))")
	g.locWrite(st, &Loc{Comp: comp, Idx: []string{"(s.ref " + d.T + ")"}}, newArr)
	g.vals[x] = Val{T: n, S: "Int", GoT: x.Type()}
}

// ------------------------------------------------------------ contract calls

func (g *gen) callContract(x *ssa.Call, fc *FuncContract, name string, args []Val, argTypes []types.Type, st State, reach string) string {
	nth := g.count("call." + name)
	for i := range args {
		args[i] = g.materialise(args[i], st)
	}
	pre := st.clone()
	// environment: parameter names → argument values
	bind := func(e *env) {
		for i, pn := range fc.ParamNames {
			if i < len(args) {
				a := args[i]
				a.GoT = argTypes[i]
				e.names[pn] = a
			}
		}
	}
	if len(fc.ParamNames) != len(args) {
		g.unsupported = append(g.unsupported, fmt.Sprintf("contract-stale: %s declares %d parameters, call has %d", fc.Key, len(fc.ParamNames), len(args)))
	}
	// ghost parameters of the callee are existential at call sites: not supported unless none
	e := g.newEnv(st, pre)
	bind(e)
	for _, gv := range fc.Ghosts {
		// callee ghosts: instantiate with fresh unconstrained values (sound for requires only if
		// they do not occur there; ensures clauses mentioning them are skipped)
		t, s, gt := g.ghostDecl(gv)
		_ = gt
		e.names[gv.Name] = Val{T: g.ctx.fresh("cg_"+gv.Name, s), S: s, GoT: t}
	}
	for _, cl := range fc.Requires {
		if mentionsAny(cl.E, ghostNames(fc)) {
			continue
		}
		t, err := g.elabBool(cl.E, e)
		if err != nil {
			g.contractError(cl, fmt.Errorf("at call to %s: %v", name, err))
			continue
		}
		if strings.HasPrefix(cl.Label, "panic.") {
			g.panicCheck("call."+strings.TrimPrefix(name, "(")+"."+strings.TrimPrefix(cl.Label, "panic."), x.Pos(), reach, t, name+" panics unless "+cl.Src)
			continue
		}
		g.oblige("callpre", fmt.Sprintf("%s.call.%s.%d.requires.%s", g.fnKey, name, nth, cl.Label), "precondition of "+name+": "+cl.Src, x.Pos(), reach, t)
	}
	// havoc what the callee may modify
	g.applyModifies(fc, args, argTypes, st, reach)
	if fc.Extern && !fc.HasModifies && !fc.Pure {
		g.havocPointees(args, argTypes, st, reach, name)
	}
	// result
	var results []Val
	if x.Type() != nil && !isEmptyTuple(x.Type()) {
		rv := g.havocVal(x.Name(), x.Type(), st, reach)
		g.vals[x] = rv
		if name == "fmt.Sprintf" && len(args) > 0 {
			// remember the constant format a string was built from (used by sqlstarts)
			if lit, whole, ok := g.stringOrigin(args[0].T); ok && whole {
				if g.sprintfOrigin == nil {
					g.sprintfOrigin = map[string]string{}
				}
				g.sprintfOrigin[rv.T] = lit
			}
		}
		if tt, ok := x.Type().(*types.Tuple); ok {
			for i := 0; i < tt.Len(); i++ {
				results = append(results, Val{T: fmt.Sprintf("(%s..%d %s)", rv.S, i, rv.T), S: g.ctx.sortOf(tt.At(i).Type()), GoT: tt.At(i).Type()})
			}
		} else {
			results = []Val{rv}
		}
	}
	e2 := g.newEnv(st, pre)
	bind(e2)
	e2.results = results
	for i, rn := range fc.ResultNames {
		if rn != "" && i < len(results) {
			e2.names[rn] = results[i]
		}
	}
	for _, cl := range fc.Ensures {
		if mentionsAny(cl.E, ghostNames(fc)) {
			continue
		}
		t, err := g.elabBool(cl.E, e2)
		if err != nil {
			g.contractError(cl, fmt.Errorf("at call to %s: %v", name, err))
			continue
		}
		// A clause with an open known finding does not hold on the finding's witness partition: callers may
		// assume it only outside W (entry-state witnesses), or not at all (return-state witnesses, which the
		// caller cannot evaluate).
		skip := false
		for _, f := range fc.Findings {
			if f.Clause != cl.Label && !matchGlob(f.Clause, fc.Key+".ensures."+cl.Label) {
				continue
			}
			if f.Post {
				skip = true
				break
			}
			epre := g.newEnv(pre, pre)
			bind(epre)
			w, werr := g.elabBool(f.When, epre)
			if werr != nil {
				skip = true
				break
			}
			t = implies(not(w), t)
		}
		if skip {
			g.ctx.note("callee clause with an open finding not assumed: " + fc.Key + "." + cl.Label)
			continue
		}
		g.ctx.assume(implies(reach, t))
	}
	if fc.Extern || fc.Trusted {
		g.ctx.assumed["assumed contract: "+fc.Key] = true
	}
	return reach
}

func ghostNames(fc *FuncContract) map[string]bool {
	m := map[string]bool{}
	for _, gv := range fc.Ghosts {
		m[gv.Name] = true
	}
	return m
}

func mentionsAny(e *Expr, names map[string]bool) bool {
	if e == nil || len(names) == 0 {
		return false
	}
	if e.Op == "name" && names[e.S] {
		return true
	}
	for _, a := range e.Args {
		if mentionsAny(a, names) {
			return true
		}
	}
	for _, b := range e.Binders {
		if mentionsAny(b.Lo, names) || mentionsAny(b.Hi, names) || mentionsAny(b.Keys, names) {
			return true
		}
	}
	return false
}

// applyWriteSet havocs exactly the heap components the callee (transitively) writes, as found by a dry symbolic
// run; components it writes only on objects it allocates itself keep their contents on existing objects.
func (g *gen) applyWriteSet(callee *ssa.Function, st State) {
	written := map[string]bool{}
	for _, w := range g.prog.dryWrittenFor(callee) {
		for comp := range w {
			written[comp] = true
		}
	}
	oldWritten, classified := g.prog.dryOld[callee]
	top0 := g.stGet(st, "alloctop")
	for _, comp := range sortedKeys(written) {
		if !g.importComp(comp) {
			continue
		}
		if strings.HasPrefix(comp, "ghost_") && g.ghostPrivate(strings.TrimPrefix(comp, "ghost_")) {
			continue // only the function under verification assigns this ghost (see ghostPrivate)
		}
		if comp == "alloctop" {
			n := g.ctx.fresh("alloctop", "Int")
			g.ctx.assume("(>= " + n + " " + top0 + ")")
			g.stSet(st, "alloctop", n)
			continue
		}
		if classified && !oldWritten[comp] && strings.HasPrefix(g.ctx.compSort[comp], "(Array Int ") {
			before := g.stGet(st, comp)
			saved := g.freshWrite
			g.freshWrite = true
			g.havocComp(st, comp)
			g.freshWrite = saved
			after := g.stGet(st, comp)
			g.ctx.assume("(forall ((r Int)) (! (=> (< r " + top0 + ") (= (select " + after + " r) (select " + before + " r))) :pattern ((select " + after + " r))))")
			continue
		}
		g.havocComp(st, comp)
	}
}

// applyModifies havocs the heap components a contract declares as modified.
// Entries: ghost variable names; "Type.field"; "elems(T)"; "map(K,V)"; "*" (everything).
func (g *gen) applyModifies(fc *FuncContract, args []Val, argTypes []types.Type, st State, reach string) {
	for _, m := range fc.Modifies {
		switch {
		case strings.HasPrefix(m, "elems_of(") && strings.HasSuffix(m, ")"):
			pn := m[len("elems_of(") : len(m)-1]
			found := false
			for i, n := range fc.ParamNames {
				if n == pn && i < len(args) {
					g.havocThrough(args[i], argTypes[i], st, reach, 0)
					found = true
				}
			}
			if !found {
				g.unsupported = append(g.unsupported, fmt.Sprintf("contract: %s: modifies %s names no parameter", fc.Key, m))
			}
		case m == "summary":
			// the heap part of the frame is the callee's computed write set (what an uncontracted callee gets)
			if f := g.prog.funcs[fc.Key]; f != nil && len(f.Blocks) > 0 {
				g.applyWriteSet(f, st)
			} else {
				g.havocAll(st)
			}
		case m == "*":
			g.havocAll(st)
		case g.cs.GhostVars[m] != "":
			g.havocComp(st, g.ghostComp(m))
		default:
			comps := g.resolveModifies(m, fc)
			if len(comps) == 0 {
				g.unsupported = append(g.unsupported, fmt.Sprintf("contract: %s: cannot resolve modifies entry %q", fc.Key, m))
			}
			for _, c := range comps {
				g.havocComp(st, c)
			}
		}
	}
	if len(fc.Modifies) > 0 {
		// allocation may have happened
		top := g.stGet(st, "alloctop")
		n := g.ctx.fresh("alloctop", "Int")
		g.ctx.assume("(>= " + n + " " + top + ")")
		g.stSet(st, "alloctop", n)
	}
}

func (g *gen) havocComp(st State, comp string) {
	n := g.ctx.fresh(comp+"_mod", g.ctx.compSort[comp])
	g.stSet(st, comp, n)
}

func (g *gen) ghostComp(name string) string {
	t, err := g.prog.specType(g.cs.GhostVars[name], g.fn)
	s := "Int"
	if err == nil {
		s = g.specSort(g.cs.GhostVars[name], t)
	} else if gt := g.cs.GhostVars[name]; gt == "intarray" || gt == "seq" || gt == "nat" {
		s = g.specSort(gt, nil)
	}
	return g.ctx.comp("ghost_"+name, s)
}

// resolveModifies maps "Type.field", "elems(T)", "map(K,V)" to heap components.
func (g *gen) resolveModifies(m string, fc *FuncContract) []string {
	if strings.HasPrefix(m, "elems(") && strings.HasSuffix(m, ")") {
		t, err := g.prog.specType(m[6:len(m)-1], g.fn)
		if err != nil {
			return nil
		}
		return []string{g.ctx.elemComp(g.ctx.sortOf(t))}
	}
	if strings.HasPrefix(m, "map(") && strings.HasSuffix(m, ")") {
		parts := strings.SplitN(m[4:len(m)-1], ",", 2)
		if len(parts) != 2 {
			return nil
		}
		k, err1 := g.prog.specType(strings.TrimSpace(parts[0]), g.fn)
		v, err2 := g.prog.specType(strings.TrimSpace(parts[1]), g.fn)
		if err1 != nil || err2 != nil {
			return nil
		}
		a, b, c := g.ctx.mapCompsT(types.NewMap(k, v))
		return []string{a, b, c}
	}
	if i := strings.LastIndex(m, "."); i > 0 {
		t, err := g.prog.specTypeIn(m[:i], fc.Pkg, g.fn)
		if err != nil {
			return nil
		}
		su, ok := t.Underlying().(*types.Struct)
		if !ok {
			return nil
		}
		ss := g.ctx.sortOf(t)
		if m[i+1:] == "*" {
			var out []string
			for j := 0; j < su.NumFields(); j++ {
				out = append(out, g.ctx.fieldComp(ss, su, j))
			}
			return out
		}
		for j := 0; j < su.NumFields(); j++ {
			if su.Field(j).Name() == m[i+1:] {
				return []string{g.ctx.fieldComp(ss, su, j)}
			}
		}
	}
	return nil
}

// ------------------------------------------------------------ inlining

// tryInline inlines callee; if its body leaves the modelled subset everything is rolled back and the caller falls
// back to the write-set summary.
func (g *gen) tryInline(x *ssa.Call, callee *ssa.Function, args []Val, st State, reach string) (res string, done bool) {
	saved := st.clone()
	nAss, nObl, nUns := len(g.ctx.assumes), len(g.obls), len(g.unsupported)
	savedCounters := map[string]int{}
	for k, v := range g.counters {
		savedCounters[k] = v
	}
	defer func() {
		if r := recover(); r != nil {
			if _, ok := r.(unsupportedErr); !ok {
				panic(r)
			}
			for k := range st {
				delete(st, k)
			}
			for k, v := range saved {
				st[k] = v
			}
			g.ctx.assumes = g.ctx.assumes[:nAss]
			g.obls = g.obls[:nObl]
			g.unsupported = g.unsupported[:nUns]
			for k := range g.counters {
				delete(g.counters, k)
			}
			for k, v := range savedCounters {
				g.counters[k] = v
			}
			delete(g.vals, x)
			res, done = "", false
		}
	}()
	return g.callInline(x, callee, args, st, reach), true
}

func (g *gen) callInline(x *ssa.Call, callee *ssa.Function, args []Val, st State, reach string) string {
	g.ctx.note("inlined: " + funcKey(callee))
	sub := newGen(g.prog, callee, g.cs.Funcs[funcKey(callee)], g.ctx)
	sub.dry = g.dry
	sub.isInline = true
	sub.rootFc = g.rootContract()
	sub.inheritNoPanic = g.nopanic()
	sub.inlineDepth = g.inlineDepth + 1
	sub.fnKey = g.fnKey + "/" + funcKey(callee)
	sub.counters = g.counters
	sub.freshRefs, sub.writtenOld = g.freshRefs, g.writtenOld
	sub.entry = st.clone()
	if !g.dry {
		sub.dryWritten = g.prog.dryWrittenFor(callee)
		sub.dryOldB = g.prog.dryOldB[callee]
	}
	for i, p := range callee.Params {
		if i < len(args) {
			sub.vals[p] = args[i]
		}
	}
	sub.execBody(st, reach)
	g.obls = append(g.obls, sub.obls...)
	g.unsupported = append(g.unsupported, sub.unsupported...)
	// writes inside the callee count as writes of the calling block
	for _, w := range sub.written {
		for c := range w {
			if g.curBlock != nil {
				if g.written[g.curBlock] == nil {
					g.written[g.curBlock] = map[string]bool{}
				}
				g.written[g.curBlock][c] = true
			}
		}
	}
	if len(sub.rets) == 0 {
		return "false" // callee never returns
	}
	// merge return states into st
	var conds []string
	for i := range sub.rets {
		n := g.ctx.fresh("ret_"+callee.Name(), "Bool")
		g.ctx.assume("(= " + n + " " + sub.rets[i].reach + ")")
		sub.rets[i].reach = n
		conds = append(conds, n)
	}
	keys := map[string]bool{}
	for _, r := range sub.rets {
		for k := range r.st {
			keys[k] = true
		}
	}
	for k := range keys {
		t := g.stGet(sub.rets[len(sub.rets)-1].st, k)
		same := true
		for i := len(sub.rets) - 2; i >= 0; i-- {
			v := g.stGet(sub.rets[i].st, k)
			if v != t {
				same = false
				t = "(ite " + sub.rets[i].reach + " " + v + " " + t + ")"
			}
		}
		if same {
			st[k] = t
		} else {
			n := g.ctx.fresh(k, g.ctx.compSort[k])
			g.ctx.assume("(= " + n + " " + t + ")")
			st[k] = n
		}
	}
	if x.Type() != nil && !isEmptyTuple(x.Type()) {
		s := g.ctx.sortOf(x.Type())
		mk := func(r inlineRet) string {
			if len(r.vals) == 1 {
				return r.vals[0].T
			}
			var ts []string
			for _, v := range r.vals {
				ts = append(ts, v.T)
			}
			return "(mk-" + s + " " + strings.Join(ts, " ") + ")"
		}
		t := mk(sub.rets[len(sub.rets)-1])
		for i := len(sub.rets) - 2; i >= 0; i-- {
			t = "(ite " + sub.rets[i].reach + " " + mk(sub.rets[i]) + " " + t + ")"
		}
		g.vals[x] = Val{T: g.define(x.Name(), s, t), S: s, GoT: x.Type()}
	}
	return and(reach, or(conds...))
}


// callOrdinal numbers the calls of one callee inside the function under verification in SOURCE order (position of
// the call expression), so that `after call KEY N` / `before call KEY N` mean "the N-th call of KEY as written",
// whatever order go/ssa laid the blocks out in.
func (g *gen) callOrdinal(x *ssa.Call, name string) int {
	if g.callOrd == nil || g.callOrdFn != x.Parent() {
		g.callOrd = map[*ssa.Call]int{}
		g.callOrdFn = x.Parent()
		type site struct {
			c        *ssa.Call
			pos      token.Pos
			blk, idx int
		}
		byName := map[string][]site{}
		fn := x.Parent()
		for _, b := range fn.Blocks {
			for i, in := range b.Instrs {
				if c, ok := in.(*ssa.Call); ok {
					n := calleeName(&c.Call)
					byName[n] = append(byName[n], site{c, c.Pos(), b.Index, i})
				}
			}
		}
		for _, sites := range byName {
			sort.SliceStable(sites, func(i, j int) bool {
				if sites[i].pos != sites[j].pos {
					return sites[i].pos < sites[j].pos
				}
				if sites[i].blk != sites[j].blk {
					return sites[i].blk < sites[j].blk
				}
				return sites[i].idx < sites[j].idx
			})
			for k, st := range sites {
				g.callOrd[st.c] = k + 1
			}
		}
	}
	return g.callOrd[x]
}
