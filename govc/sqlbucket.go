package main

// K6e — time-bucket rewrite templates.
//
// rewriteTimeBucket / rewriteDateTrunc replace time_bucket(INTERVAL 'n unit', col[, origin]) and
// date_trunc('unit', col) by integer arithmetic on epoch seconds, built with fmt.Sprintf. The format literal
// is extracted from the real call on every run and must be one of the shapes below (anything else is
// undecided); the obligation is an arithmetic lemma between DuckDB's bucket function and the arithmetic the
// template denotes, for EVERY timestamp t (microseconds, any sign) and every width N > 0 seconds.
//
// Assumed DuckDB semantics (each validated against the real engine by the known-finding demonstrations):
//   time_bucket(N s, ts)          = O + N * floor((ts - O) / N),  O = 2000-01-03 00:00:00 UTC (946857600 s);
//                                   date_trunc of second/minute/hour/day/week is the same function (O is a Monday midnight)
//   time_bucket(N s, ts, origin)  = origin + N * floor((ts - origin) / N)
//   epoch(ts)                     = ts in seconds, as DOUBLE
//   x::BIGINT                     = x rounded to the nearest integer
//   a // b                        = integer division truncating toward zero
//   to_timestamp(s)               = the instant s seconds after the epoch
//
// Nonlinear step (N symbolic): the solver is given two ground instances of "N > 0 and d >= 1 imply N*d >= N"
// as hints; the hints themselves are a separate obligation (`.hints`), so nothing is assumed unproved.

import (
	"fmt"
	"go/constant"
	"strings"

	"golang.org/x/tools/go/ssa"
)

type BucketCheck struct {
	Name     string `json:"name"`
	Function string `json:"function"` // key of the function (closure) holding the Sprintf
	Contains string `json:"contains"`
	// Semantics: which DuckDB function the closure replaces — "default" (time_bucket/date_trunc without origin:
	// buckets counted from 2000-01-03) or "origin" (3-argument time_bucket: counted from the given origin).
	// EVERY rewrite template the closure builds (any Sprintf format beginning with to_timestamp() is held
	// against it, not only the one named by Contains.
	Semantics string `json:"semantics,omitempty"`
}

const defaultBucketOrigin = 946857600

// shapes: normalised format → "plain" (no origin argument) or "origin"
var bucketShapes = map[string]string{
	"TO_TIMESTAMP((EPOCH(%S)::BIGINT // %D) * %D)":              "plain",
	"TO_TIMESTAMP(%D + ((EPOCH(%S)::BIGINT - %D) // %D) * %D)": "origin",
}

func (p *Program) bucketObligations(bc BucketCheck) ([]*Obligation, []string) {
	fn := p.funcs[bc.Function]
	if fn == nil {
		return nil, []string{fmt.Sprintf("bucket %s: function %s not found (contract-stale)", bc.Name, bc.Function)}
	}
	var obls []*Obligation
	var undecided []string
	found, alts := 0, 0
	sem := bc.Semantics
	for _, b := range fn.Blocks {
		for _, in := range b.Instrs {
			call, ok := in.(*ssa.Call)
			if !ok || calleeName(&call.Call) != "fmt.Sprintf" || len(call.Call.Args) < 2 {
				continue
			}
			c, ok := call.Call.Args[0].(*ssa.Const)
			if !ok || c.Value == nil || c.Value.Kind() != constant.String {
				continue
			}
			format := constant.StringVal(c.Value)
			if !strings.Contains(format, bc.Contains) && !strings.HasPrefix(strings.ToLower(strings.TrimSpace(format)), "to_timestamp(") {
				continue
			}
			found++
			name := fmt.Sprintf("%s.bucket.%s", bc.Function, bc.Name)
			if !strings.Contains(format, bc.Contains) {
				alts++
				name = fmt.Sprintf("%s.alt%d", name, alts)
			}
			shape, known := bucketShapes[strings.ToUpper(strings.Join(strings.Fields(format), " "))]
			if !known {
				undecided = append(undecided, fmt.Sprintf("%s: unrecognised rewrite template %q", name, format))
				continue
			}
			// the width (and origin) placeholders must all be bound to one value each
			same := func(i, j int) bool {
				a, ok1 := variadicElem(call.Call.Args[1], i, 0)
				b, ok2 := variadicElem(call.Call.Args[1], j, 0)
				return ok1 && ok2 && stripConv(a) == stripConv(b)
			}
			okArgs := false
			if shape == "plain" {
				okArgs = same(1, 2)
			} else {
				okArgs = same(0, 2) && same(3, 4)
			}
			pos := p.fset.Position(call.Pos())
			at := fmt.Sprintf("%s:%d", shortFile(pos.Filename), pos.Line)
			if !okArgs {
				// the template is the modelled one but its placeholders are fed different values: the generated
				// SQL is not the arithmetic the lemma is about — refuted, not merely unknown
				fctx := newCtx()
				obls = append(obls, &Obligation{Name: name, Kind: "template", Fn: bc.Function, Pos: at,
					Desc:    fmt.Sprintf("the width (and origin) placeholders of %q are bound to one value each", format),
					NAssume: 0, Reach: "true", Cond: "false", ctx: fctx})
				continue
			}
			mk := func() *Ctx {
				ctx := newCtx()
				ctx.decls = append(ctx.decls, `(declare-const t Int) (declare-const N Int) (declare-const O Int)
(declare-const r Int) (declare-const q Int) (declare-const rr Int) (declare-const f Int) (declare-const rem Int) (declare-const d Int)`)
				ctx.assume("(> N 0)")
				if semOf(sem, shape) == "default" {
					ctx.assume(fmt.Sprintf("(= O %d)", defaultBucketOrigin))
				}
				// r = epoch(ts)::BIGINT : nearest integer to t / 1e6
				ctx.assume("(and (<= (* 2 (- (* 1000000 r) t)) 1000000) (>= (* 2 (- (* 1000000 r) t)) (- 1000000)))")
				// q = x // N (truncating), x = r (plain) or r - O (origin form)
				x := "r"
				if shape == "origin" {
					x = "(- r O)"
				}
				ctx.assume("(= " + x + " (+ (* N q) rr))")
				ctx.assume("(=> (>= " + x + " 0) (and (<= 0 rr) (< rr N)))")
				ctx.assume("(=> (< " + x + " 0) (and (< (- N) rr) (<= rr 0)))")
				// f = floor((t - 1e6*O) / (1e6*N))
				ctx.assume("(= (- t (* 1000000 O)) (+ (* 1000000 (* N f)) rem))")
				ctx.assume("(and (<= 0 rem) (< rem (* 1000000 N)))")
				return ctx
			}
			// got (seconds) vs want (seconds)
			got, want := "(* N q)", "(+ O (* N f))"
			if shape == "origin" {
				got = "(+ O (* N q))"
			}
			type part struct{ id, w, what string }
			parts := []part{
				{"bucket-rewrite-subsecond-rounding", "(not (= (mod t 1000000) 0))", "timestamps with a sub-second part"},
			}
			if semOf(sem, shape) == "default" {
				parts = append(parts,
					part{"bucket-rewrite-truncates-toward-zero", "(< t 0)", "timestamps before 1970"},
					part{"bucket-rewrite-epoch-origin", "(not (= (mod O N) 0))", "widths that do not divide the default origin 2000-01-03 (e.g. 7 hours, 1 week)"})
			} else {
				// (an origin-free template used for a call WITH an origin has no alignment excuse: nothing is known
				// about the origin, so the main obligation below is simply refuted)
				parts = append(parts, part{"bucket-rewrite-truncates-toward-zero", "(or (< t (* 1000000 O)) (< t 0))", "timestamps before the origin"})
			}
			// hints (k exists only in the aligned case: O = N*k)
			hintDefs := "(declare-const k Int)"
			var hintAssumes []string
			dExpr := "(- q f)"
			eq := "(= (* N d) (- (* N q) (* N f)))"
			aligned := shape == "plain" && semOf(sem, shape) == "default"
			if aligned {
				dExpr = "(- (- q k) f)"
				eq = "(= (* N d) (- (- (* N q) (* N k)) (* N f)))"
			}
			hintAssumes = append(hintAssumes, "(= d "+dExpr+")", eq, "(=> (>= d 1) (>= (* N d) N))", "(=> (<= d (- 1)) (<= (* N d) (- N)))")
			// main obligation: outside every finding partition the rewrite equals the original
			ctx := mk()
			ctx.decls = append(ctx.decls, hintDefs)
			var extra []string
			for _, pt := range parts {
				extra = append(extra, "(not "+pt.w+")")
			}
			if aligned {
				extra = append(extra, "(= O (* N k))")
			}
			extra = append(extra, hintAssumes...)
			obls = append(obls, &Obligation{Name: name, Kind: "template", Fn: bc.Function, Pos: at,
				Desc:    fmt.Sprintf("template %q equals DuckDB's bucket function for every timestamp and width outside the known-finding partitions", format),
				NAssume: len(ctx.assumes), Reach: "true", Cond: "(= " + got + " " + want + ")", ctx: ctx, Extra: extra})
			// the hints are valid arithmetic (no assumption left unproved)
			hctx := newCtx()
			hctx.decls = append(hctx.decls, "(declare-const N Int) (declare-const d Int) (declare-const q Int) (declare-const k Int) (declare-const f Int)")
			hctx.assume("(> N 0)")
			hctx.assume("(= d " + dExpr + ")")
			obls = append(obls, &Obligation{Name: name + ".hints", Kind: "template", Fn: bc.Function, Pos: at,
				Desc:    "the two monotonicity instances handed to the solver as hints are valid",
				NAssume: len(hctx.assumes), Reach: "true", Cond: "(and " + eq + " (=> (>= d 1) (>= (* N d) N)) (=> (<= d (- 1)) (<= (* N d) (- N))))", ctx: hctx})
			// witness partitions: expected refutable
			for _, pt := range parts {
				wctx := mk()
				obls = append(obls, &Obligation{Name: name + "[" + pt.id + "]", Kind: "template", Fn: bc.Function, Pos: at,
					Desc:    fmt.Sprintf("template %q vs DuckDB's bucket function for %s", format, pt.what),
					NAssume: len(wctx.assumes), Reach: "true", Cond: "(= " + got + " " + want + ")", ctx: wctx, Extra: []string{pt.w}, ExpectSat: true, Finding: pt.id,
					ModelVars: []string{"t", "N", "O"}})
			}
		}
	}
	if found == 0 {
		undecided = append(undecided, fmt.Sprintf("bucket %s: no fmt.Sprintf format containing %q in %s (contract-stale)", bc.Name, bc.Contains, bc.Function))
	}
	return obls, undecided
}

// stripConv looks through conversions and interface boxing so that two placeholders bound to the same
// variable compare equal.
func stripConv(v ssa.Value) ssa.Value {
	for {
		switch x := v.(type) {
		case *ssa.MakeInterface:
			v = x.X
		case *ssa.ChangeType:
			v = x.X
		case *ssa.Convert:
			v = x.X
		default:
			return v
		}
	}
}


// semOf: the semantics a template is held against — the closure's declared one, or the template's own shape.
func semOf(declared, shape string) string {
	if declared != "" {
		return declared
	}
	if shape == "origin" {
		return "origin"
	}
	return "default"
}
