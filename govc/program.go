package main

import (
	"fmt"
	"go/ast"
	"go/token"
	"go/types"
	"os"
	"path/filepath"
	"sort"
	"strings"

	"golang.org/x/tools/go/packages"
	"golang.org/x/tools/go/ssa"
	"golang.org/x/tools/go/ssa/ssautil"
)

type Program struct {
	pkgs    []*packages.Package
	prog    *ssa.Program
	spkgs   []*ssa.Package
	cs      *ContractSet
	fset    *token.FileSet
	funcs   map[string]*ssa.Function // key → function (all functions of loaded packages, incl. closures)
	dryMemo map[*ssa.Function]map[*ssa.BasicBlock]map[string]bool
	dryOld  map[*ssa.Function]map[string]bool // components a function may write on pre-existing objects
	dryOldB map[*ssa.Function]map[*ssa.BasicBlock]map[string]bool
	autoInl map[*ssa.Function]bool
	drySorts map[string]string
	dryStructs map[string]types.Type
	repo    string
	loadS   float64
}

const modulePrefix = "github.com/basekick-labs/arc/"

func loadProgram(repo string, patterns []string, specDir string) (*Program, error) {
	cfg := &packages.Config{
		Mode: packages.NeedName | packages.NeedFiles | packages.NeedCompiledGoFiles | packages.NeedImports |
			packages.NeedTypes | packages.NeedTypesSizes | packages.NeedSyntax | packages.NeedTypesInfo | packages.NeedModule,
		Dir:        repo,
		BuildFlags: []string{"-tags=verif"},
		Env:        append(os.Environ(), "GOFLAGS=", "GOPROXY=off", "GOSUMDB=off", "GOTOOLCHAIN=local"),
	}
	pkgs, err := packages.Load(cfg, patterns...)
	if err != nil {
		return nil, err
	}
	var errs []string
	for _, p := range pkgs {
		for _, e := range p.Errors {
			errs = append(errs, e.Error())
		}
	}
	if len(errs) > 0 {
		return nil, fmt.Errorf("package load errors:\n%s", strings.Join(errs, "\n"))
	}
	prog, spkgs := ssautil.Packages(pkgs, ssa.GlobalDebug|ssa.InstantiateGenerics)
	p := &Program{pkgs: pkgs, prog: prog, spkgs: spkgs, cs: newContractSet(), funcs: map[string]*ssa.Function{},
		dryMemo: map[*ssa.Function]map[*ssa.BasicBlock]map[string]bool{}, dryOld: map[*ssa.Function]map[string]bool{}, dryOldB: map[*ssa.Function]map[*ssa.BasicBlock]map[string]bool{}, autoInl: map[*ssa.Function]bool{}, drySorts: map[string]string{}, dryStructs: map[string]types.Type{}, repo: repo}
	if len(pkgs) > 0 {
		p.fset = pkgs[0].Fset
	}
	for _, sp := range spkgs {
		if sp == nil {
			continue
		}
		sp.Build()
	}
	for _, sp := range spkgs {
		if sp == nil {
			continue
		}
		for _, m := range sp.Members {
			switch x := m.(type) {
			case *ssa.Function:
				p.addFunc(x)
			case *ssa.Type:
				for _, t := range []types.Type{x.Type(), types.NewPointer(x.Type())} {
					ms := prog.MethodSets.MethodSet(t)
					for i := 0; i < ms.Len(); i++ {
						if fn := prog.MethodValue(ms.At(i)); fn != nil && fn.Pkg == sp {
							p.addFunc(fn)
						}
					}
				}
			}
		}
	}
	// contract files: every zz_contracts*_verif.go in the loaded packages, plus library specs
	for _, pk := range pkgs {
		for _, f := range pk.CompiledGoFiles {
			base := filepath.Base(f)
			if strings.HasPrefix(base, "zz_contracts") && strings.HasSuffix(base, "_verif.go") {
				if err := p.cs.loadContractFile(f, pk.Name); err != nil {
					return nil, err
				}
			}
		}
	}
	if specDir != "" {
		specs, _ := filepath.Glob(filepath.Join(specDir, "*.spec"))
		sort.Strings(specs)
		for _, s := range specs {
			if err := p.cs.loadContractFile(s, "std"); err != nil {
				return nil, err
			}
		}
	}
	return p, nil
}

func (p *Program) addFunc(fn *ssa.Function) {
	if fn.Synthetic != "" && len(fn.Blocks) == 0 {
		return
	}
	k := funcKey(fn)
	if _, dup := p.funcs[k]; !dup {
		p.funcs[k] = fn
	}
	for _, an := range fn.AnonFuncs {
		p.addFunc(an)
	}
}

// specType resolves a Go type expression in the scope of fn's file.
func (p *Program) specType(expr string, fn *ssa.Function) (types.Type, error) {
	switch expr {
	case "seq", "nat", "intarray":
		return nil, fmt.Errorf("spec-only type")
	}
	var pkg *types.Package
	pos := token.NoPos
	if fn != nil && fn.Pkg != nil {
		pkg = fn.Pkg.Pkg
		pos = fn.Pos()
		for pf := fn.Parent(); !pos.IsValid() && pf != nil; pf = pf.Parent() {
			pos = pf.Pos()
		}
	}
	if pkg != nil {
		tv, err := types.Eval(p.fset, pkg, pos, expr)
		if err == nil && tv.Type != nil {
			return tv.Type, nil
		}
	}
	// fallback: pkg.Type across loaded packages (and their imports)
	star := 0
	e := expr
	for strings.HasPrefix(e, "*") {
		e = e[1:]
		star++
	}
	if strings.HasPrefix(e, "[]") {
		t, err := p.specType(e[2:], fn)
		if err != nil {
			return nil, err
		}
		var out types.Type = types.NewSlice(t)
		for ; star > 0; star-- {
			out = types.NewPointer(out)
		}
		return out, nil
	}
	if i := strings.Index(e, "."); i > 0 {
		pn, tn := e[:i], e[i+1:]
		var found types.Type
		visit := func(tp *types.Package) {
			if tp.Name() == pn && found == nil {
				if o := tp.Scope().Lookup(tn); o != nil {
					if _, ok := o.(*types.TypeName); ok {
						found = o.Type()
					}
				}
			}
		}
		for _, pk := range p.pkgs {
			visit(pk.Types)
			for _, imp := range pk.Types.Imports() {
				visit(imp)
			}
		}
		if found != nil {
			for ; star > 0; star-- {
				found = types.NewPointer(found)
			}
			return found, nil
		}
	} else {
		for _, pk := range p.pkgs {
			if o := pk.Types.Scope().Lookup(e); o != nil {
				if _, ok := o.(*types.TypeName); ok {
					var found types.Type = o.Type()
					for ; star > 0; star-- {
						found = types.NewPointer(found)
					}
					return found, nil
				}
			}
		}
		if o := types.Universe.Lookup(e); o != nil {
			if _, ok := o.(*types.TypeName); ok {
				return o.Type(), nil
			}
		}
	}
	return nil, fmt.Errorf("cannot resolve type %q", expr)
}

func (p *Program) specTypeIn(expr, pkgName string, fn *ssa.Function) (types.Type, error) {
	if t, err := p.specType(expr, fn); err == nil {
		return t, nil
	}
	if !strings.Contains(expr, ".") {
		return p.specType(pkgName+"."+expr, fn)
	}
	return nil, fmt.Errorf("cannot resolve type %q", expr)
}

// isLoaded: fn belongs to one of the packages loaded from source for this run.
func (p *Program) isLoaded(fn *ssa.Function) bool {
	for _, sp := range p.spkgs {
		if sp != nil && fn.Pkg == sp {
			return true
		}
	}
	return false
}

func sortedKeys(m map[string]bool) []string {
	var ks []string
	for k := range m {
		ks = append(ks, k)
	}
	sort.Strings(ks)
	return ks
}

func (p *Program) shouldInline(fn *ssa.Function) bool {
	if fc, ok := p.cs.Funcs[funcKey(fn)]; ok {
		return fc.Inline
	}
	return false
}

// autoInlinable: a loaded, uncontracted, small function with an acyclic control-flow graph and no defer/go/select.
func (p *Program) autoInlinable(fn *ssa.Function) bool {
	if v, ok := p.autoInl[fn]; ok {
		return v
	}
	ok := func() bool {
		if _, has := p.cs.Funcs[funcKey(fn)]; has {
			return false
		}
		if len(fn.Blocks) == 0 || len(fn.Blocks) > 10 || fn.Pkg == nil || !p.isLoaded(fn) || fn.Recover != nil {
			return false
		}
		n := 0
		for _, b := range fn.Blocks {
			for _, s := range b.Succs {
				if s.Index <= b.Index {
					return false // possible back edge
				}
			}
			for _, in := range b.Instrs {
				n++
				switch in.(type) {
				case *ssa.Defer, *ssa.Go, *ssa.Select, *ssa.RunDefers, *ssa.MakeClosure:
					return false
				}
			}
		}
		return n <= 150
	}()
	p.autoInl[fn] = ok
	return ok
}

// dryWrittenFor runs a throw-away symbolic execution of fn to learn which heap
// components each block writes (needed to havoc loop-modified state).
func (p *Program) dryWrittenFor(fn *ssa.Function) map[*ssa.BasicBlock]map[string]bool {
	if w, ok := p.dryMemo[fn]; ok {
		return w
	}
	p.dryMemo[fn] = map[*ssa.BasicBlock]map[string]bool{} // recursion guard
	ctx := newCtx()
	g := newGen(p, fn, p.cs.Funcs[funcKey(fn)], ctx)
	g.dry = true
	func() {
		defer func() {
			if r := recover(); r != nil {
				if _, ok := r.(unsupportedErr); ok {
					return
				}
				panic(r)
			}
		}()
		st := State{}
		g.entry = st
		g.bindParams(st)
		g.execBody(st, "true")
	}()
	p.dryMemo[fn] = g.written
	p.dryOld[fn] = g.writtenOld
	p.dryOldB[fn] = g.writtenOldB
	if p.dryOldB[fn] == nil {
		p.dryOldB[fn] = map[*ssa.BasicBlock]map[string]bool{}
	}
	for k, v := range ctx.compSort {
		p.drySorts[k] = v // component sorts are global (derived from Go types)
	}
	for k, t := range ctx.structGo {
		p.dryStructs[k] = t
	}
	return g.written
}

func identName(d *ssa.DebugRef) string {
	if id, ok := d.Expr.(*ast.Ident); ok {
		return id.Name
	}
	return ""
}

// bindParams introduces symbolic values for the parameters of g.fn.
func (g *gen) bindParams(st State) {
	for _, p := range g.fn.Params {
		n := "p_" + sanitize(p.Name())
		s := g.ctx.sortOf(p.Type())
		g.ctx.declareOnce("param:"+n, fmt.Sprintf("(declare-const %s %s)", n, s))
		if inv := g.typeInv(n, p.Type(), st); inv != "true" {
			g.ctx.assume(inv)
		}
		v := Val{T: n, S: s, GoT: p.Type()}
		g.vals[p] = v
		g.paramEnv[p.Name()] = v
	}
	for _, fv := range g.fn.FreeVars {
		hv := g.havocVal("fv_"+fv.Name(), fv.Type(), st, "true")
		g.vals[fv] = hv
		// captured variables are pointers to cells; expose by name as a location
		if pt, ok := fv.Type().Underlying().(*types.Pointer); ok {
			loc := g.derefLocQuiet(hv, pt)
			g.paramEnv[fv.Name()] = Val{T: "", S: loc.Sort, GoT: loc.GoT, L: loc}
		}
	}
}

// ------------------------------------------------------------ top level per function

type FuncResult struct {
	Key         string
	Obligations []*Obligation
	Unsupported []string
	Ctx         *Ctx
	Err         error
	ParamTerms  []string
	ParamNames  []string
	ParamTypes  []string
	StaleNames  []string // invariants that could not be stated because a local they name is gone
}

// verifyFunction generates all obligations for one function under contract.
func (p *Program) verifyFunction(key string) *FuncResult {
	res := &FuncResult{Key: key}
	fn := p.funcs[key]
	fc := p.cs.Funcs[key]
	if fn == nil {
		res.Err = fmt.Errorf("contract-stale: function %s not found in loaded packages", key)
		return res
	}
	if len(fn.Blocks) == 0 {
		res.Err = fmt.Errorf("function %s has no body", key)
		return res
	}
	dryW := p.dryWrittenFor(fn)
	ctx := newCtx()
	res.Ctx = ctx
	g := newGen(p, fn, fc, ctx)
	g.dryWritten = dryW
	g.dryOldB = p.dryOldB[fn]
	func() {
		defer func() {
			if r := recover(); r != nil {
				if u, ok := r.(unsupportedErr); ok {
					res.Err = fmt.Errorf("outside subset: %s", string(u))
					return
				}
				panic(r)
			}
		}()
		st := State{}
		g.stGet(st, "alloctop")
		ctx.assume("(> " + st["alloctop"] + " 0)")
		g.entry = st
		g.bindParams(st)
		g.emitAxiomsFor(fc)
		for _, pv := range fn.Params {
			res.ParamNames = append(res.ParamNames, pv.Name())
			res.ParamTerms = append(res.ParamTerms, g.vals[pv].T)
			res.ParamTypes = append(res.ParamTypes, shortType(pv.Type()))
		}
		// contract header sanity: parameter names must match (contract-stale otherwise)
		if fc != nil {
			if fn.Parent() != nil && len(fc.ParamNames) == len(fn.Params)+1 {
				// a closure is keyed by its enclosing method; the receiver in the header is not a parameter
				fc.ParamNames, fc.ParamTypes = fc.ParamNames[1:], fc.ParamTypes[1:]
			}
			staleHeader := false
			if len(fc.ParamNames) != len(fn.Params) {
				// The function's signature changed under its contract. Parameters are then bound by their own
				// names only; a precondition that can no longer be stated is DROPPED (never assumed), and every
				// other clause is checked without it — so a change that removed what an obligation relied on
				// fails that obligation instead of hiding behind a stale contract.
				staleHeader = true
				g.ctx.note(fmt.Sprintf("contract header of %s has %d parameters, the function has %d: unstatable preconditions are dropped", key, len(fc.ParamNames), len(fn.Params)))
			} else {
				for i, pn := range fc.ParamNames {
					if pn != fn.Params[i].Name() {
						// allow the contract to name parameters itself
						g.paramEnv[pn] = g.vals[fn.Params[i]]
					}
				}
			}
			for _, gv := range fc.Ghosts {
				t, s, err := g.ghostDecl(gv)
				if err != nil {
					res.Err = fmt.Errorf("ghost %s: %v", gv.Name, err)
					return
				}
				n := "gh_" + sanitize(gv.Name)
				ctx.declareOnce("ghost:"+n, fmt.Sprintf("(declare-const %s %s)", n, s))
				g.ghostEnv[gv.Name] = Val{T: n, S: s, GoT: t}
				res.ParamNames = append(res.ParamNames, "ghost "+gv.Name)
				res.ParamTerms = append(res.ParamTerms, n)
				res.ParamTypes = append(res.ParamTypes, gv.Type)
			}
			for _, cl := range fc.Requires {
				e := g.newEnv(st, st)
				t, err := g.elabBool(cl.E, e)
				if err != nil {
					if staleHeader {
						g.ctx.note(fmt.Sprintf("precondition %s of %s dropped: %v", cl.Label, key, err))
						continue
					}
					g.contractError(cl, err)
					continue
				}
				ctx.assume(t)
			}
		}
		nReq := len(ctx.assumes)
		g.entry = st.clone()
		g.applyGhostSets(true, "", 0, nil, st)
		g.execBody(st, "true")
		if fc != nil && g.pointAssertsApplied != len(fc.PointAsserts) {
			// A point assertion whose anchor call no longer exists produces no obligation (reported per obligation
			// as baseline-obligation-not-generated); the rest of the function's contract is still checked.
			g.ctx.note(fmt.Sprintf("%d of %d point assertions of %s found their anchor", g.pointAssertsApplied, len(fc.PointAsserts), key))
		}
		if fc != nil && g.ghostSetsApplied != len(fc.GhostSets) {
			// A ghost assignment anchored at a call that is no longer made simply does not happen: the ghost
			// keeps its previous value (a guard call that was removed leaves its ghost flag unset, so the
			// obligation it guarded fails instead of going stale).
			g.ctx.note(fmt.Sprintf("%d of %d ghost assignments of %s found their anchor; the others do not happen", g.ghostSetsApplied, len(fc.GhostSets), key))
		}
		// vacuity: the precondition must be satisfiable
		g.obls = append([]*Obligation{{Name: key + ".requires.sat", Kind: "cover", Fn: key, Desc: "precondition satisfiable", NAssume: nReq, Reach: "true", Cond: "false", ExpectSat: true, ctx: ctx}}, g.obls...)
		// returns
		anyRet := "false"
		var retReach []string
		for _, r := range g.rets {
			retReach = append(retReach, r.reach)
		}
		anyRet = or(retReach...)
		if fc != nil && len(g.rets) > 0 {
			for _, cl := range fc.Ensures {
				var conj []string
				var posts []string
				var envs []*env
				bad := false
				outOfScope := 0
				var lastErr error
				for _, r := range g.rets {
					e := g.newEnv(r.st, g.entry)
					e.results = r.vals
					e.atBlock, e.atEnd = r.blk, true
					sig := fn.Signature.Results()
					for i := 0; i < sig.Len() && i < len(r.vals); i++ {
						if nm := sig.At(i).Name(); nm != "" && nm != "_" {
							e.names[nm] = r.vals[i]
						}
					}
					for i, rn := range fc.ResultNames {
						if rn != "" && i < len(r.vals) {
							e.names[rn] = r.vals[i]
						}
					}
					t, err := g.elabBool(cl.E, e)
					if err != nil {
						if strings.Contains(err.Error(), "unknown name") {
							// a source local named by the clause is not yet declared on this return path:
							// the clause does not apply there (it must apply at one return at least)
							outOfScope++
							lastErr = err
							t = "true"
						} else {
							g.contractError(cl, err)
							bad = true
							break
						}
					}
					conj = append(conj, implies(r.reach, t))
					posts = append(posts, t)
					envs = append(envs, e)
				}
				if !bad && outOfScope == len(g.rets) && lastErr != nil {
					g.contractError(cl, lastErr)
					bad = true
				}
				if bad {
					continue
				}
				if outOfScope > 0 {
					g.ctx.note(fmt.Sprintf("ensures %s: not applicable at %d return(s) where a named local is out of scope", cl.Label, outOfScope))
				}
				name := fmt.Sprintf("%s.ensures.%s", key, cl.Label)
				// known findings whose witness predicate speaks about the return state (whenpost)
				var postSplits []FindingSplit
				for _, f := range fc.Findings {
					if f.Post && (f.Clause == cl.Label || matchGlob(f.Clause, name)) {
						postSplits = append(postSplits, f)
					}
				}
				if len(postSplits) == 0 {
					g.obligeClauseNoAssume("ensures", name, cl, "true", and(conj...))
					continue
				}
				notW := make([][]string, len(g.rets))
				okSplit := true
				for _, f := range postSplits {
					var wconj []string
					for ri, r := range g.rets {
						w, err := g.elabBool(f.When, envs[ri])
						if err != nil && strings.Contains(err.Error(), "unknown name") {
							w, err = "false", nil // the witness names a local that does not exist on this return path
						}
						if err != nil {
							g.contractError(cl, fmt.Errorf("finding %s: %v", f.ID, err))
							okSplit = false
							break
						}
						notW[ri] = append(notW[ri], not(w))
						wconj = append(wconj, implies(and(r.reach, w), posts[ri]))
					}
					if !okSplit {
						break
					}
					g.obls = append(g.obls, &Obligation{Name: name + "[" + f.ID + "]", Kind: "ensures", Fn: key, Desc: cl.Src + " WHENPOST " + f.Src,
						NAssume: len(ctx.assumes), Reach: "true", Cond: and(wconj...), ctx: ctx, ExpectSat: true, Finding: f.ID,
						Pos: fmt.Sprintf("%s:%d", shortFile(cl.File), cl.Line)})
				}
				if !okSplit {
					continue
				}
				var rest []string
				for ri, r := range g.rets {
					rest = append(rest, implies(and(append([]string{r.reach}, notW[ri]...)...), posts[ri]))
				}
				g.obls = append(g.obls, &Obligation{Name: name, Kind: "ensures", Fn: key, Desc: cl.Src, NAssume: len(ctx.assumes), Reach: "true",
					Cond: and(rest...), ctx: ctx, Pos: fmt.Sprintf("%s:%d", shortFile(cl.File), cl.Line)})
			}
			// frame: without a modifies clause the function must leave pre-existing heap untouched
			if !fc.HasModifies && !fc.Extern {
				g.frameObligations(key, nil)
			} else if fc.HasModifies && !fc.Extern && !fc.Trusted {
				// with a modifies clause: everything the body writes outside the listed components
				// must be unchanged on pre-existing objects
				if allowed, all := g.modifiesAllowed(fc); !all {
					g.frameObligations(key, allowed)
				}
			}
		}
		// cover and canary: some return is reachable
		g.obls = append(g.obls, &Obligation{Name: key + ".cover.return", Kind: "cover", Fn: key, Desc: "a return is reachable under the precondition",
			NAssume: len(ctx.assumes), Reach: anyRet, Cond: "false", ExpectSat: true, ctx: ctx})
	}()
	res.Obligations = g.obls
	res.Unsupported = g.unsupported
	res.StaleNames = g.staleNames
	return res
}

func (g *gen) obligeClauseNoAssume(kind, name string, cl Clause, reach, cond string) {
	n := len(g.ctx.assumes)
	g.obligeClause(kind, name, cl, reach, cond)
	// postconditions are not assumed for later clauses: drop the trailing "clause holds" assumption only
	// (facts emitted while elaborating, e.g. map conventions, stay)
	if len(g.ctx.assumes) > n {
		g.ctx.assumes = g.ctx.assumes[:len(g.ctx.assumes)-1]
	}
}

// frameObligations: components written by the function but not listed in `modifies`
// must be unchanged on previously allocated references.
func (g *gen) frameObligations(key string, allowed map[string]bool) {
	touched := map[string]bool{}
	for _, w := range g.written {
		for c := range w {
			if !allowed[c] {
				touched[c] = true
			}
		}
	}
	var comps []string
	for c := range touched {
		comps = append(comps, c)
	}
	sort.Strings(comps)
	top0 := g.stGet(g.entry, "alloctop")
	for _, c := range comps {
		if c == "alloctop" || c == epochKey || strings.HasPrefix(c, "rangevisited_") {
			continue
		}
		if g.frameSummary {
			continue // `modifies summary`: callers havoc the computed write set (heap and ghosts), nothing to check
		}
		var conj []string
		for _, r := range g.rets {
			a, b := g.stGet(g.entry, c), g.stGet(r.st, c)
			if a == b {
				continue
			}
			var cond string
			if strings.HasPrefix(g.ctx.compSort[c], "(Array Int ") {
				cond = "(forall ((r Int)) (=> (and (<= 0 r) (< r " + top0 + ")) (= (select " + a + " r) (select " + b + " r))))"
			} else {
				cond = "(= " + a + " " + b + ")"
			}
			conj = append(conj, implies(r.reach, cond))
		}
		if len(conj) == 0 {
			continue
		}
		n := len(g.ctx.assumes)
		g.oblige("frame", fmt.Sprintf("%s.frame.%s", key, c), "heap component "+c+" unchanged on pre-existing objects (no modifies clause)", token.NoPos, "true", and(conj...))
		g.ctx.assumes = g.ctx.assumes[:n]
	}
}

// modifiesAllowed resolves the modifies clause of the function under verification to heap components.
// all is true for `modifies *`.
func (g *gen) modifiesAllowed(fc *FuncContract) (allowed map[string]bool, all bool) {
	allowed = map[string]bool{}
	for _, m := range fc.Modifies {
		switch {
		case m == "summary":
			g.frameSummary = true
		case m == "*":
			all = true
		case g.cs.GhostVars[m] != "":
			allowed[g.ghostComp(m)] = true
		case strings.HasPrefix(m, "elems_of(") && strings.HasSuffix(m, ")"):
			pn := m[len("elems_of(") : len(m)-1]
			for i, p := range g.fn.Params {
				name := p.Name()
				if i < len(fc.ParamNames) {
					name = fc.ParamNames[i]
				}
				if name != pn && p.Name() != pn {
					continue
				}
				// the components a havoc through this parameter reaches
				scratch := g.entry.clone()
				saved := g.curBlock
				g.curBlock = nil
				g.havocThrough(g.vals[p], p.Type(), scratch, "true", 0)
				g.curBlock = saved
				for c, t := range scratch {
					if g.entry[c] != t {
						allowed[c] = true
					}
				}
			}
		default:
			for _, c := range g.resolveModifies(m, fc) {
				allowed[c] = true
			}
		}
	}
	if all {
		// ghosts are covered by `*` as well
		return allowed, true
	}
	return allowed, false
}

func (g *gen) emitAxiomsFor(fc *FuncContract) {
	for _, ax := range g.cs.Axioms {
		if fc != nil && ax.File != fc.File && !strings.HasSuffix(ax.File, ".spec") {
			continue
		}
		e := &env{names: map[string]Val{}, st: State{}, old: State{}, pre: State{}}
		t, err := g.elabBool(ax.E, e)
		if err != nil {
			g.unsupported = append(g.unsupported, fmt.Sprintf("axiom %s: %v", ax.Name, err))
			continue
		}
		g.ctx.declareOnce("axiom:"+ax.Name, "(assert "+t+") ; axiom "+ax.Name)
	}
}

// verifyLemma turns a lemma into a single obligation over the axioms.
func (p *Program) verifyLemma(name string, anyFn *ssa.Function) *FuncResult {
	lm := p.cs.Lemmas[name]
	res := &FuncResult{Key: "lemma." + name}
	if lm == nil {
		res.Err = fmt.Errorf("contract-stale: lemma %s not found", name)
		return res
	}
	ctx := newCtx()
	res.Ctx = ctx
	g := newGen(p, anyFn, nil, ctx)
	g.fnKey = "lemma." + name
	for _, ax := range p.cs.Axioms {
		if ax.File != lm.File {
			continue
		}
		e := &env{names: map[string]Val{}, st: State{}, old: State{}, pre: State{}}
		t, err := g.elabBool(ax.E, e)
		if err != nil {
			res.Err = fmt.Errorf("axiom %s: %v", ax.Name, err)
			return res
		}
		ctx.declareOnce("axiom:"+ax.Name, "(assert "+t+") ; axiom "+ax.Name)
	}
	for _, gv := range lm.Ghosts {
		t, s, err := g.ghostDecl(gv)
		if err != nil {
			res.Err = err
			return res
		}
		n := "gh_" + sanitize(gv.Name)
		ctx.declareOnce("ghost:"+n, fmt.Sprintf("(declare-const %s %s)", n, s))
		g.ghostEnv[gv.Name] = Val{T: n, S: s, GoT: t}
		res.ParamNames = append(res.ParamNames, "ghost "+gv.Name)
		res.ParamTerms = append(res.ParamTerms, n)
		res.ParamTypes = append(res.ParamTypes, gv.Type)
	}
	g.entry = State{}
	e := g.newEnv(State{}, State{})
	t, err := g.elabBool(lm.E, e)
	if err != nil {
		res.Err = fmt.Errorf("lemma %s: %v", name, err)
		return res
	}
	g.fc = &FuncContract{Findings: lm.Findings}
	g.obligeClause("lemma", "lemma."+name, Clause{Label: name, Src: lm.Src, File: lm.File}, "true", t)
	res.Obligations = g.obls
	res.Unsupported = g.unsupported
	return res
}
