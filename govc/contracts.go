package main

// Contract files: `//@` comment lines in /repo/internal/<pkg>/zz_contracts_verif.go
// (build tag verif, comment-only) and library specs in /verif/govc/stdlib/*.spec.

import (
	"fmt"
	"go/ast"
	"go/parser"
	"go/token"
	"os"
	"path/filepath"
	"regexp"
	"sort"
	"strconv"
	"strings"
)

type Clause struct {
	Label string
	Src   string
	E     *Expr
	Line  int
	File  string
}

type GhostVar struct {
	Name string
	Type string
}

type FindingSplit struct {
	ID     string // known-finding id
	Clause string // clause label (or obligation-name glob) it partitions
	When   *Expr
	Src    string
	Post   bool // evaluate in the return state instead of the entry state
}

type FuncContract struct {
	Key         string // normalised key, e.g. "(*wal.Writer).AppendRaw" or "wal.ParseEnvelope"
	Pkg         string // package name the contract file belongs to
	Header      string
	Extern      bool
	ParamNames  []string // including receiver first, when present
	ParamTypes  []string
	ResultNames []string
	ResultTypes []string
	Ghosts      []GhostVar
	Requires    []Clause
	Ensures     []Clause
	LoopInv     map[int][]Clause
	Asserts     []Clause // (unused placeholder for future point assertions)
	NoPanic     bool
	NoOverflow  bool
	Inline      bool
	Pure        bool // no modelled heap effects (extern)
	Modifies    []string
	HasModifies bool
	GhostSets   []GhostSet // ghost assignments at program points (`set G = E at entry | after call KEY N`)
	PointAsserts []PointAssert // `assert LABEL: E before call KEY N`
	Findings    []FindingSplit
	Trusted     bool // contract assumed at call sites, body not verified
	File        string
	Line        int
}

// GhostSet is ghost code: an assignment to a global ghost variable at function entry or right after the
// N-th call (in block order) of a named callee; `result`/`resultK` name that call's results.
type GhostSet struct {
	Name    string
	E       *Expr
	Src     string
	AtEntry bool
	AtReturn bool // `set G = E at return`: evaluated at every return, `result`/`resultK` name the returned values
	Callee  string
	Nth     int
	Before  bool // `set G = E before call KEY N`: evaluated right before the call (and before the point assertions and the callee's preconditions at that call)
	File    string
	Line    int
}

// PointAssert is an assertion anchored right before the N-th call (in block order) of a named callee.
type PointAssert struct {
	Clause Clause
	Callee string
	Nth    int
}

type SpecFunc struct {
	Name       string
	Params     []GhostVar
	Result     string
	Body       *Expr // non-nil for pure (macro) functions
	BodySrc    string
	File       string
}

type Axiom struct {
	Name string
	Src  string
	E    *Expr
	File string
}

type Lemma struct {
	Name   string
	Src    string
	E      *Expr
	File   string
	Ghosts []GhostVar
	Findings []FindingSplit
}

type ContractSet struct {
	Funcs     map[string]*FuncContract
	SpecFuncs map[string]*SpecFunc
	Axioms    []*Axiom
	Lemmas    map[string]*Lemma
	LemmaOrder []string
	GhostVars map[string]string // ghost global name → type
	GhostConst map[string]bool  // ghost constants (never modified)
	Files     []string
	ScanHits  []string // assume/axiom/trusted/bounded occurrences, for the evidence
}

func newContractSet() *ContractSet {
	return &ContractSet{Funcs: map[string]*FuncContract{}, SpecFuncs: map[string]*SpecFunc{}, Lemmas: map[string]*Lemma{}, GhostVars: map[string]string{}}
}

var keywordRe = regexp.MustCompile(`^(func|extern|requires|ensures|loop|ghost|set|assert|nopanic|nooverflow|inline|pure|modifies|spec|axiom|lemma|finding|trusted|end)\b`)

// loadContractFile parses one contract file. pkgName qualifies unqualified function names.
func (cs *ContractSet) loadContractFile(path, pkgName string) error {
	data, err := os.ReadFile(path)
	if err != nil {
		return err
	}
	cs.Files = append(cs.Files, path)
	type item struct {
		text string
		line int
	}
	var items []item
	for i, ln := range strings.Split(string(data), "\n") {
		t := strings.TrimSpace(ln)
		var body string
		if strings.HasPrefix(t, "//@") {
			body = strings.TrimSpace(t[3:])
		} else if strings.HasSuffix(path, ".spec") {
			if strings.HasPrefix(t, "#") || t == "" {
				continue
			}
			body = t
		} else {
			continue
		}
		if body == "" {
			continue
		}
		if i := strings.Index(body, " //"); i >= 0 && !strings.Contains(body[i:], "\"") {
			body = strings.TrimSpace(body[:i])
		}
		if keywordRe.MatchString(body) || len(items) == 0 {
			items = append(items, item{body, i + 1})
		} else {
			items[len(items)-1].text += " " + body
		}
	}
	var cur *FuncContract
	var curLemma *Lemma
	for _, it := range items {
		kw := keywordRe.FindString(it.text)
		rest := strings.TrimSpace(it.text[len(kw):])
		fail := func(f string, a ...interface{}) error {
			return fmt.Errorf("%s:%d: %s", path, it.line, fmt.Sprintf(f, a...))
		}
		switch kw {
		case "func", "extern":
			curLemma = nil
			hdr := it.text
			ext := false
			if kw == "extern" {
				ext = true
				hdr = strings.TrimSpace(rest)
			}
			fc, err := parseHeader(hdr, pkgName)
			if err != nil {
				return fail("%v", err)
			}
			fc.Extern = ext
			fc.Pkg = pkgName
			fc.File, fc.Line = path, it.line
			fc.LoopInv = map[int][]Clause{}
			if _, dup := cs.Funcs[fc.Key]; dup {
				return fail("duplicate contract for %s", fc.Key)
			}
			cs.Funcs[fc.Key] = fc
			cur = fc
		case "end":
			cur, curLemma = nil, nil
		case "requires", "ensures":
			if cur == nil {
				return fail("%s outside func", kw)
			}
			cl, err := parseClause(rest, path, it.line)
			if err != nil {
				return fail("%v", err)
			}
			if kw == "requires" {
				if cl.Label == "" {
					cl.Label = strconv.Itoa(len(cur.Requires) + 1)
				}
				cur.Requires = append(cur.Requires, cl)
			} else {
				if cl.Label == "" {
					cl.Label = strconv.Itoa(len(cur.Ensures) + 1)
				}
				cur.Ensures = append(cur.Ensures, cl)
			}
		case "loop":
			if cur == nil {
				return fail("loop outside func")
			}
			f := strings.Fields(rest)
			if len(f) < 3 || f[1] != "invariant" {
				return fail("expected: loop N invariant <expr>")
			}
			n, err := strconv.Atoi(f[0])
			if err != nil {
				return fail("bad loop ordinal")
			}
			idx := strings.Index(rest, "invariant") + len("invariant")
			cl, err := parseClause(strings.TrimSpace(rest[idx:]), path, it.line)
			if err != nil {
				return fail("%v", err)
			}
			if cl.Label == "" {
				cl.Label = strconv.Itoa(len(cur.LoopInv[n]) + 1)
			}
			cur.LoopInv[n] = append(cur.LoopInv[n], cl)
		case "ghost":
			if strings.HasPrefix(rest, "var ") || strings.HasPrefix(rest, "const ") {
				// `ghost const`: a logical constant of the model (e.g. the content of the file being read):
				// never assigned, and not havoc'd by `modifies *`
				f := strings.Fields(rest)[1:]
				if len(f) != 2 {
					return fail("ghost var NAME TYPE")
				}
				cs.GhostVars[f[0]] = f[1]
				if strings.HasPrefix(rest, "const ") {
					if cs.GhostConst == nil {
						cs.GhostConst = map[string]bool{}
					}
					cs.GhostConst[f[0]] = true
				}
				continue
			}
			gs, err := parseVarList(rest)
			if err != nil {
				return fail("%v", err)
			}
			if curLemma != nil {
				curLemma.Ghosts = append(curLemma.Ghosts, gs...)
			} else if cur != nil {
				cur.Ghosts = append(cur.Ghosts, gs...)
			} else {
				return fail("ghost outside func")
			}
		case "nopanic":
			if cur == nil {
				return fail("nopanic outside func")
			}
			cur.NoPanic = true
		case "nooverflow":
			cur.NoOverflow = true
		case "inline":
			cur.Inline = true
		case "trusted":
			cur.Trusted = true
			cs.ScanHits = append(cs.ScanHits, fmt.Sprintf("trusted contract %s (%s:%d)", cur.Key, filepath.Base(path), it.line))
		case "pure":
			if strings.HasPrefix(rest, "func") {
				sf, err := parseSpecFunc(strings.TrimSpace(rest[4:]), true)
				if err != nil {
					return fail("%v", err)
				}
				sf.File = path
				cs.SpecFuncs[sf.Name] = sf
			} else if cur != nil {
				cur.Pure = true
			}
		case "spec":
			if !strings.HasPrefix(rest, "func") {
				return fail("spec func expected")
			}
			sf, err := parseSpecFunc(strings.TrimSpace(rest[4:]), false)
			if err != nil {
				return fail("%v", err)
			}
			sf.File = path
			cs.SpecFuncs[sf.Name] = sf
		case "assert":
			if cur == nil {
				return fail("assert outside func")
			}
			am := regexp.MustCompile(`^(.*?)\s+before call (\S+) (\d+)$`).FindStringSubmatch(rest)
			if am == nil {
				return fail("assert [LABEL:] EXPR before call KEY N")
			}
			acl, aerr := parseClause(am[1], path, it.line)
			if aerr != nil {
				return fail("%v", aerr)
			}
			if acl.Label == "" {
				acl.Label = strconv.Itoa(len(cur.PointAsserts) + 1)
			}
			an, _ := strconv.Atoi(am[3])
			cur.PointAsserts = append(cur.PointAsserts, PointAssert{Clause: acl, Callee: am[2], Nth: an})
		case "set":
			if cur == nil {
				return fail("set outside func")
			}
			m := regexp.MustCompile(`^([A-Za-z_][A-Za-z0-9_]*)\s*=\s*(.*?)\s+(at entry|at return|(?:after|before) call (\S+) (\d+))$`).FindStringSubmatch(rest)
			if m == nil {
				return fail("set NAME = EXPR (at entry | at return | after call KEY N | before call KEY N)")
			}
			e, err := parseSpecExpr(m[2])
			if err != nil {
				return fail("%v", err)
			}
			gs := GhostSet{Name: m[1], E: e, Src: m[2], File: path, Line: it.line}
			if m[3] == "at entry" {
				gs.AtEntry = true
			} else if m[3] == "at return" {
				gs.AtReturn = true
			} else {
				gs.Callee = m[4]
				gs.Nth, _ = strconv.Atoi(m[5])
				gs.Before = strings.HasPrefix(m[3], "before")
			}
			cur.GhostSets = append(cur.GhostSets, gs)
		case "modifies":
			if cur == nil {
				return fail("modifies outside func")
			}
			cur.HasModifies = true
			for _, m := range splitTopLevel(rest) {
				m = strings.TrimSpace(m)
				if m != "" && m != "nothing" {
					cur.Modifies = append(cur.Modifies, m)
				}
			}
		case "axiom":
			i := strings.Index(rest, ":")
			if i < 0 {
				return fail("axiom NAME: expr")
			}
			e, err := parseSpecExpr(rest[i+1:])
			if err != nil {
				return fail("%v", err)
			}
			cs.Axioms = append(cs.Axioms, &Axiom{Name: strings.TrimSpace(rest[:i]), Src: rest[i+1:], E: e, File: path})
			cs.ScanHits = append(cs.ScanHits, fmt.Sprintf("axiom %s (%s:%d)", strings.TrimSpace(rest[:i]), filepath.Base(path), it.line))
		case "lemma":
			i := strings.Index(rest, ":")
			if i < 0 {
				return fail("lemma NAME: expr")
			}
			e, err := parseSpecExpr(rest[i+1:])
			if err != nil {
				return fail("%v", err)
			}
			name := strings.TrimSpace(rest[:i])
			lm := &Lemma{Name: name, Src: strings.TrimSpace(rest[i+1:]), E: e, File: path}
			cs.Lemmas[name] = lm
			cs.LemmaOrder = append(cs.LemmaOrder, name)
			curLemma = lm
			cur = nil
		case "finding":
			// finding <id> on <clause-label> when <expr>
			// `whenpost`: the witness predicate is evaluated in the state (and with the locals) at each return
			m := regexp.MustCompile(`^(\S+)\s+on\s+(\S+)\s+(when|whenpost)\s+(.*)$`).FindStringSubmatch(rest)
			if m == nil {
				return fail("finding ID on CLAUSE when|whenpost EXPR")
			}
			e, err := parseSpecExpr(m[4])
			if err != nil {
				return fail("%v", err)
			}
			fs := FindingSplit{ID: m[1], Clause: m[2], When: e, Src: m[4], Post: m[3] == "whenpost"}
			if curLemma != nil {
				curLemma.Findings = append(curLemma.Findings, fs)
			} else if cur != nil {
				cur.Findings = append(cur.Findings, fs)
			} else {
				return fail("finding outside func/lemma")
			}
		default:
			return fail("unrecognised contract line %q", it.text)
		}
	}
	return nil
}

// splitTopLevel splits on commas that are not inside parentheses or brackets.
func splitTopLevel(s string) []string {
	var out []string
	depth, start := 0, 0
	for i := 0; i < len(s); i++ {
		switch s[i] {
		case '(', '[':
			depth++
		case ')', ']':
			depth--
		case ',':
			if depth == 0 {
				out = append(out, s[start:i])
				start = i + 1
			}
		}
	}
	return append(out, s[start:])
}

func parseClause(s, file string, line int) (Clause, error) {
	cl := Clause{File: file, Line: line}
	// optional "label:" prefix (identifier with dots/dashes followed by ':' but not '::')
	if m := regexp.MustCompile(`^([A-Za-z_][A-Za-z0-9_.\-]*)\s*:([^:].*)$`).FindStringSubmatch(s); m != nil && !strings.Contains(m[1], "forall") {
		cl.Label = m[1]
		s = strings.TrimSpace(m[2])
	}
	e, err := parseSpecExpr(s)
	if err != nil {
		return cl, err
	}
	cl.Src, cl.E = s, e
	return cl, nil
}

func parseVarList(s string) ([]GhostVar, error) {
	var out []GhostVar
	for _, part := range strings.Split(s, ",") {
		f := strings.Fields(part)
		switch len(f) {
		case 1:
			out = append(out, GhostVar{Name: f[0]})
		case 2:
			out = append(out, GhostVar{Name: f[0], Type: f[1]})
		default:
			return nil, fmt.Errorf("bad variable list %q", s)
		}
	}
	// propagate types right-to-left: "a, b int"
	for i := len(out) - 2; i >= 0; i-- {
		if out[i].Type == "" {
			out[i].Type = out[i+1].Type
		}
	}
	for _, v := range out {
		if v.Type == "" {
			return nil, fmt.Errorf("missing type in %q", s)
		}
	}
	return out, nil
}

// parseSpecFunc parses `name(a T, b U) R [= expr]`.
func parseSpecFunc(s string, pure bool) (*SpecFunc, error) {
	i := strings.Index(s, "(")
	if i < 0 {
		return nil, fmt.Errorf("bad spec func %q", s)
	}
	depth, j := 0, i
	for ; j < len(s); j++ {
		if s[j] == '(' {
			depth++
		} else if s[j] == ')' {
			depth--
			if depth == 0 {
				break
			}
		}
	}
	sf := &SpecFunc{Name: strings.TrimSpace(s[:i])}
	if strings.TrimSpace(s[i+1:j]) != "" {
		ps, err := parseVarList(s[i+1 : j])
		if err != nil {
			return nil, err
		}
		sf.Params = ps
	}
	rest := strings.TrimSpace(s[j+1:])
	if pure {
		k := strings.Index(rest, "=")
		if k < 0 {
			return nil, fmt.Errorf("pure func needs '= expr'")
		}
		sf.Result = strings.TrimSpace(rest[:k])
		e, err := parseSpecExpr(rest[k+1:])
		if err != nil {
			return nil, err
		}
		sf.Body, sf.BodySrc = e, strings.TrimSpace(rest[k+1:])
	} else {
		sf.Result = rest
	}
	if sf.Result == "" {
		sf.Result = "bool"
	}
	return sf, nil
}

var hdrRe = regexp.MustCompile(`^func\s*(\([^)]*\))?\s*([A-Za-z0-9_./$*\[\]]+)\s*(\(.*)$`)

// parseHeader parses a Go-like function header, allowing qualified names (os.Rename).
func parseHeader(h, pkgName string) (*FuncContract, error) {
	m := hdrRe.FindStringSubmatch(strings.TrimSpace(h))
	if m == nil {
		return nil, fmt.Errorf("bad function header %q", h)
	}
	recv, name, rest := m[1], m[2], m[3]
	src := "package p\nfunc " + recv + " X" + rest + " {}"
	fset := token.NewFileSet()
	f, err := parser.ParseFile(fset, "hdr.go", src, 0)
	if err != nil {
		return nil, fmt.Errorf("bad function header %q: %v", h, err)
	}
	fd := f.Decls[0].(*ast.FuncDecl)
	fc := &FuncContract{Header: h}
	typeStr := func(e ast.Expr) string { return src[fset.Position(e.Pos()).Offset:fset.Position(e.End()).Offset] }
	qual := func(t string) string {
		// qualify an unqualified receiver type with the package name
		star := strings.HasPrefix(t, "*")
		base := strings.TrimPrefix(t, "*")
		if !strings.Contains(base, ".") {
			base = pkgName + "." + base
		}
		if star {
			return "*" + base
		}
		return base
	}
	if fd.Recv != nil && len(fd.Recv.List) == 1 {
		r := fd.Recv.List[0]
		rn := "recv"
		if len(r.Names) == 1 {
			rn = r.Names[0].Name
		}
		fc.ParamNames = append(fc.ParamNames, rn)
		fc.ParamTypes = append(fc.ParamTypes, typeStr(r.Type))
		fc.Key = "(" + qual(typeStr(r.Type)) + ")." + name
	} else {
		if strings.Contains(name, ".") {
			fc.Key = name
		} else {
			fc.Key = pkgName + "." + name
		}
	}
	for i, p := range fd.Type.Params.List {
		if len(p.Names) == 0 {
			fc.ParamNames = append(fc.ParamNames, fmt.Sprintf("_arg%d", i))
			fc.ParamTypes = append(fc.ParamTypes, typeStr(p.Type))
		}
		for _, n := range p.Names {
			fc.ParamNames = append(fc.ParamNames, n.Name)
			fc.ParamTypes = append(fc.ParamTypes, typeStr(p.Type))
		}
	}
	if fd.Type.Results != nil {
		for _, p := range fd.Type.Results.List {
			if len(p.Names) == 0 {
				fc.ResultNames = append(fc.ResultNames, "")
				fc.ResultTypes = append(fc.ResultTypes, typeStr(p.Type))
			}
			for _, n := range p.Names {
				fc.ResultNames = append(fc.ResultNames, n.Name)
				fc.ResultTypes = append(fc.ResultTypes, typeStr(p.Type))
			}
		}
	}
	return fc, nil
}

func (cs *ContractSet) sortedFuncKeys() []string {
	var ks []string
	for k := range cs.Funcs {
		ks = append(ks, k)
	}
	sort.Strings(ks)
	return ks
}
