package main

// Replay of solver counterexamples against the real code via `go test -overlay`.

import (
	"bytes"
	"context"
	"encoding/json"
	"fmt"
	"go/types"
	"os"
	"os/exec"
	"path/filepath"
	"strconv"
	"strings"
	"time"

	"golang.org/x/tools/go/ssa"
)

type ssaFunction = ssa.Function

type replayFile struct {
	Property   string            `json:"property"`
	Obligation string            `json:"obligation"`
	Kind       string            `json:"kind"`
	Clause     string            `json:"clause"`
	At         string            `json:"at"`
	Solver     string            `json:"solver"`
	Answer     string            `json:"answer"`
	Model      map[string]string `json:"model,omitempty"`
	Inputs     map[string]string `json:"inputs,omitempty"`
	TestSource string            `json:"test_source,omitempty"`
	Command    string            `json:"command,omitempty"`
	Output     string            `json:"output,omitempty"`
	Verdict    string            `json:"verdict"`
	SolverOut  string            `json:"solver_output,omitempty"`
}

func goEnv() []string {
	env := os.Environ()
	var out []string
	for _, e := range env {
		if strings.HasPrefix(e, "GOFLAGS=") {
			continue
		}
		out = append(out, e)
	}
	return append(out, "GOFLAGS=", "GOPROXY=off", "GOSUMDB=off", "GOTOOLCHAIN=local")
}

// concrete input extracted from a model
type concreteArg struct {
	name   string
	goType types.Type
	goExpr string // Go expression constructing the value
	smtEq  []string // assertions pinning the symbolic parameter to this value
	show   string
}

func runZ3(query string, timeoutS int) (string, string) {
	f, err := os.CreateTemp("", "govc-replay-*.smt2")
	if err != nil {
		return "error", err.Error()
	}
	defer os.Remove(f.Name())
	f.WriteString(query)
	f.Close()
	ctx, cancel := context.WithTimeout(context.Background(), time.Duration(timeoutS+2)*time.Second)
	defer cancel()
	cmd := exec.CommandContext(ctx, "z3-new", fmt.Sprintf("-T:%d", timeoutS), f.Name())
	var out bytes.Buffer
	cmd.Stdout, cmd.Stderr = &out, &out
	cmd.Run()
	s := out.String()
	return strings.TrimSpace(strings.SplitN(s, "\n", 2)[0]), s
}

// extractInputs asks the solver for concrete parameter values (strings and byte slices in full).
func extractInputs(o *Obligation, fn *ssa.Function, fr *FuncResult) ([]concreteArg, map[string]string, string) {
	o.idxDefined = true
	base := o.query(true)
	o.idxDefined = false
	base = base[:strings.LastIndex(base, "(check-sat)")]
	type lenq struct {
		term string
	}
	var lens []string
	var small []string
	params := fn.Params
	for _, p := range params {
		n := "p_" + sanitize(p.Name())
		switch s := o.ctx.sortOf(p.Type()); s {
		case "Str":
			lens = append(lens, "(slen "+n+")")
			small = append(small, "(<= (slen "+n+") 48)")
		case "Slice":
			lens = append(lens, "(s.len "+n+")", "(s.ref "+n+")", "(s.off "+n+")")
			small = append(small, "(<= (s.len "+n+") 48)")
		}
	}
	// ghost strings too (for the record)
	for i, pn := range fr.ParamNames {
		if strings.HasPrefix(pn, "ghost ") && fr.ParamTypes[i] == "string" {
			lens = append(lens, "(slen "+fr.ParamTerms[i]+")")
			small = append(small, "(<= (slen "+fr.ParamTerms[i]+") 48)")
		}
	}
	getv := func(extra []string, terms []string) (string, map[string]string, string) {
		q := base
		for _, e := range extra {
			q += "(assert " + e + ")\n"
		}
		q += "(check-sat)\n"
		if len(terms) > 0 {
			q += "(get-value (" + strings.Join(terms, " ") + "))\n"
		}
		ans, raw := runZ3(q, 20)
		if ans != "sat" {
			return ans, nil, raw
		}
		return ans, parseModel(raw), raw
	}
	terms := append([]string{}, fr.ParamTerms...)
	terms = append(terms, lens...)
	pin := small
	ans, m, raw := getv(pin, terms)
	if ans != "sat" {
		pin = nil
		ans, m, raw = getv(nil, terms)
		if ans != "sat" {
			return nil, nil, "model extraction failed: " + ans + "\n" + raw
		}
	}
	// second phase: characters
	var charTerms []string
	pins := append([]string{}, pin...)
	type strInfo struct {
		term string
		n    int
	}
	strs := map[string]strInfo{}
	addStr := func(term string) bool {
		n, err := strconv.Atoi(smtIntValue(m["(slen "+term+")"]))
		if err != nil || n > 4096 {
			return false
		}
		strs[term] = strInfo{term, n}
		pins = append(pins, fmt.Sprintf("(= (slen %s) %d)", term, n))
		for i := 0; i < n; i++ {
			charTerms = append(charTerms, fmt.Sprintf("(sat %s %d)", term, i))
		}
		return true
	}
	for _, p := range params {
		n := "p_" + sanitize(p.Name())
		switch o.ctx.sortOf(p.Type()) {
		case "Str":
			if !addStr(n) {
				return nil, m, "string parameter too long in model"
			}
		case "Slice":
			ln, err := strconv.Atoi(smtIntValue(m["(s.len "+n+")"]))
			if err != nil || ln > 4096 {
				return nil, m, "slice parameter too long in model"
			}
			pins = append(pins, fmt.Sprintf("(= (s.len %s) %d)", n, ln), "(= (s.ref "+n+") "+m["(s.ref "+n+")"]+")", "(= (s.off "+n+") "+m["(s.off "+n+")"]+")")
			st, ok := p.Type().Underlying().(*types.Slice)
			if ok {
				if bt, ok := st.Elem().Underlying().(*types.Basic); ok && bt.Info()&types.IsInteger != 0 {
					comp := o.ctx.elemComp(o.ctx.sortOf(st.Elem()))
					for i := 0; i < ln; i++ {
						charTerms = append(charTerms, fmt.Sprintf("(select (select %s@0 (s.ref %s)) (+ (s.off %s) %d))", comp, n, n, i))
					}
				}
			}
		}
	}
	for i, pn := range fr.ParamNames {
		if strings.HasPrefix(pn, "ghost ") && fr.ParamTypes[i] == "string" {
			addStr(fr.ParamTerms[i])
		}
	}
	m2 := map[string]string{}
	if len(charTerms) > 0 {
		ans2, mm, raw2 := getv(pins, charTerms)
		if ans2 != "sat" {
			return nil, m, "model extraction (characters) failed: " + ans2 + "\n" + raw2
		}
		m2 = mm
	}
	full := map[string]string{}
	for k, v := range m {
		full[k] = v
	}
	strOf := func(term string) (string, bool) {
		si, ok := strs[term]
		if !ok {
			return "", false
		}
		b := make([]byte, si.n)
		for i := 0; i < si.n; i++ {
			v, err := strconv.Atoi(smtIntValue(m2[fmt.Sprintf("(sat %s %d)", term, i)]))
			if err != nil {
				return "", false
			}
			b[i] = byte(v)
		}
		return string(b), true
	}
	for i, pn := range fr.ParamNames {
		if strings.HasPrefix(pn, "ghost ") && fr.ParamTypes[i] == "string" {
			if s, ok := strOf(fr.ParamTerms[i]); ok {
				full[pn] = strconv.Quote(s)
			}
		}
	}
	var args []concreteArg
	for _, p := range params {
		n := "p_" + sanitize(p.Name())
		ca := concreteArg{name: p.Name(), goType: p.Type()}
		switch u := p.Type().Underlying().(type) {
		case *types.Basic:
			switch {
			case u.Info()&types.IsInteger != 0:
				v := smtIntValue(m[n])
				ca.goExpr = fmt.Sprintf("%s(%s)", goTypeName(p.Type(), fn), v)
				if u.Kind() == types.Int64 && v == "-9223372036854775808" {
					ca.goExpr = fmt.Sprintf("%s(math.MinInt64)", goTypeName(p.Type(), fn))
				}
				ca.smtEq = []string{"(= " + n + " " + smtIntS(v) + ")"}
				ca.show = v
			case u.Info()&types.IsBoolean != 0:
				ca.goExpr = m[n]
				ca.smtEq = []string{"(= " + n + " " + m[n] + ")"}
				ca.show = m[n]
			case u.Info()&types.IsString != 0:
				s, ok := strOf(n)
				if !ok {
					return nil, full, "cannot read string parameter " + p.Name()
				}
				ca.goExpr = fmt.Sprintf("%s(%s)", goTypeName(p.Type(), fn), strconv.Quote(s))
				ca.smtEq = strPin(n, s)
				ca.show = strconv.Quote(s)
			default:
				return nil, full, "parameter type not replayable: " + p.Type().String()
			}
		case *types.Slice:
			bt, ok := u.Elem().Underlying().(*types.Basic)
			if !ok || bt.Info()&types.IsInteger == 0 {
				return nil, full, "parameter type not replayable: " + p.Type().String()
			}
			ln, _ := strconv.Atoi(smtIntValue(m["(s.len "+n+")"]))
			comp := o.ctx.elemComp(o.ctx.sortOf(u.Elem()))
			var elems []string
			for i := 0; i < ln; i++ {
				elems = append(elems, smtIntValue(m2[fmt.Sprintf("(select (select %s@0 (s.ref %s)) (+ (s.off %s) %d))", comp, n, n, i)]))
			}
			if smtIntValue(m["(s.ref "+n+")"]) == "0" {
				ca.goExpr = "nil"
			} else {
				ca.goExpr = fmt.Sprintf("%s{%s}", goTypeName(p.Type(), fn), strings.Join(elems, ", "))
			}
			ca.show = ca.goExpr
			if bt.Kind() == types.Uint8 {
				b := make([]byte, ln)
				for i, e := range elems {
					v, _ := strconv.Atoi(e)
					b[i] = byte(v)
				}
				ca.show = "[]byte(" + strconv.Quote(string(b)) + ")"
			}
		case *types.Pointer:
			if p == fn.Params[0] && fn.Signature.Recv() != nil {
				ca.goExpr = "" // receiver: constructed separately
				ca.show = "zero-value receiver"
			} else {
				return nil, full, "parameter type not replayable: " + p.Type().String()
			}
		default:
			return nil, full, "parameter type not replayable: " + p.Type().String()
		}
		full["input "+p.Name()] = ca.show
		args = append(args, ca)
	}
	return args, full, ""
}

func strPin(term, s string) []string {
	out := []string{fmt.Sprintf("(= (slen %s) %d)", term, len(s))}
	for i := 0; i < len(s); i++ {
		out = append(out, fmt.Sprintf("(= (sat %s %d) %d)", term, i, s[i]))
	}
	return out
}

// replayImports collects the packages named by generated type expressions (path by name).
var replayImports = map[string]string{}

func goTypeName(t types.Type, fn *ssa.Function) string {
	return types.TypeString(t, func(p *types.Package) string {
		if fn.Pkg != nil && p == fn.Pkg.Pkg {
			return ""
		}
		replayImports[p.Name()] = p.Path()
		return p.Name()
	})
}

// replay tries to reproduce a refuted obligation on the real code.
// detail: "reproduced" | "not-reproduced" | "no-replay".
func replay(p *Program, cfg *PropConfig, r *oblResult, dir, repo, verif string) (string, bool, string) {
	o := r.O
	if o.template != nil {
		return replayTemplate(o, r, cfg, dir, repo)
	}
	os.MkdirAll(dir, 0o755)
	path := filepath.Join(dir, sanitize(o.Name)+".json")
	rf := replayFile{Property: cfg.ID, Obligation: o.Name, Kind: o.Kind, Clause: o.Desc, At: o.Pos, Solver: r.R.Solver, Answer: r.R.Answer, SolverOut: truncate(r.R.Raw, 4000)}
	write := func(verdict string) {
		rf.Verdict = verdict
		data, _ := json.MarshalIndent(rf, "", " ")
		os.WriteFile(path, data, 0o644)
	}
	fn := p.funcs[r.FR.Key]
	if fn == nil || strings.Contains(o.Fn, "/") && false {
		write("no replay: obligation is not attached to a function (lemma or template); solver output attached")
		return path, false, "no-replay"
	}
	if o.Kind != "nopanic" && o.Kind != "ensures" && o.Kind != "nooverflow" {
		write("no replay harness for obligation kind " + o.Kind + "; solver output attached")
		return path, false, "no-replay"
	}
	for k := range replayImports {
		delete(replayImports, k)
	}
	if o.Kind == "ensures" {
		if fc := p.cs.Funcs[r.FR.Key]; fc != nil {
			ghostGlobals := map[string]bool{}
			for n := range p.cs.GhostVars {
				ghostGlobals[n] = true
			}
			for i := range fc.Ensures {
				if strings.HasPrefix(o.Name, r.FR.Key+".ensures."+fc.Ensures[i].Label) && (mentionsAny(fc.Ensures[i].E, ghostGlobals) || strings.Contains(fc.Ensures[i].Src, "old(")) {
					write("no replay: the clause speaks about ghost state or the pre-state heap, which a concrete run of the function cannot observe; solver output attached")
					return path, false, "no-replay"
				}
			}
		}
	}
	args, model, why := extractInputs(o, fn, r.FR)
	rf.Model = model
	if args == nil {
		write("no replay: " + why)
		return path, false, "no-replay"
	}
	rf.Inputs = map[string]string{}
	for _, a := range args {
		rf.Inputs[a.name] = a.show
	}
	// build the test
	pkgName := fn.Pkg.Pkg.Name()
	pkgPath := fn.Pkg.Pkg.Path()
	rel := strings.TrimPrefix(pkgPath, strings.TrimSuffix(modulePrefix, "/"))
	rel = strings.TrimPrefix(rel, "/")
	pkgDir := filepath.Join(repo, rel)
	var call strings.Builder
	var argExprs []string
	recvExpr := ""
	for i, a := range args {
		if i == 0 && fn.Signature.Recv() != nil {
			rt := fn.Signature.Recv().Type()
			if pt, ok := rt.(*types.Pointer); ok {
				recvExpr = "new(" + goTypeName(pt.Elem(), fn) + ")"
			} else if a.goExpr != "" {
				recvExpr = a.goExpr
			} else {
				recvExpr = "*new(" + goTypeName(rt, fn) + ")"
			}
			continue
		}
		argExprs = append(argExprs, a.goExpr)
	}
	nres := fn.Signature.Results().Len()
	var resNames []string
	for i := 0; i < nres; i++ {
		resNames = append(resNames, fmt.Sprintf("r%d", i))
	}
	target := fn.Name()
	if recvExpr != "" {
		target = "recv." + fn.Name()
	}
	if nres > 0 {
		fmt.Fprintf(&call, "%s := %s(%s)\n", strings.Join(resNames, ", "), target, strings.Join(argExprs, ", "))
	} else {
		fmt.Fprintf(&call, "%s(%s)\n", target, strings.Join(argExprs, ", "))
	}
	for i := 0; i < nres; i++ {
		fmt.Fprintf(&call, "\t\tout[\"r%d\"] = verifShow(r%d)\n", i, i)
	}
	extraImports := ""
	for name, ipath := range replayImports {
		switch name {
		case "json", "fmt", "math", "testing":
			continue
		}
		extraImports += "\t" + name + " \"" + ipath + "\"\n"
	}
	src := "package " + pkgName + "\n\nimport (\n\t\"encoding/json\"\n\t\"fmt\"\n\t\"math\"\n\t\"testing\"\n" + extraImports + ")\n\nvar _ = math.MinInt64\n\n" +
		"func verifShow(v interface{}) interface{} {\n\tswitch x := v.(type) {\n\tcase error:\n\t\tif x == nil { return nil }\n\t\treturn map[string]string{\"error\": x.Error()}\n\tcase []byte:\n\t\treturn map[string]interface{}{\"bytes\": fmt.Sprintf(\"%q\", string(x)), \"nil\": x == nil}\n\tcase float64:\n\t\treturn map[string]interface{}{\"f64bits\": fmt.Sprint(math.Float64bits(x)), \"text\": fmt.Sprint(x)}\n\tcase nil:\n\t\treturn nil\n\t}\n\treturn v\n}\n\n" +
		"func TestVerifReplay(t *testing.T) {\n\tout := map[string]interface{}{}\n\tfunc() {\n\t\tdefer func() {\n\t\t\tif r := recover(); r != nil {\n\t\t\t\tout[\"panic\"] = fmt.Sprint(r)\n\t\t\t}\n\t\t}()\n"
	if recvExpr != "" {
		src += "\t\trecv := " + recvExpr + "\n"
	}
	src += "\t\t" + call.String() + "\t}()\n\tb, _ := json.Marshal(out)\n\tfmt.Printf(\"VERIF-REPLAY: %s\\n\", b)\n}\n"
	rf.TestSource = src
	tmp, err := os.MkdirTemp("", "govc-replay-")
	if err != nil {
		write("no replay: " + err.Error())
		return path, false, "no-replay"
	}
	defer os.RemoveAll(tmp)
	testFile := filepath.Join(tmp, "zz_verif_replay_test.go")
	os.WriteFile(testFile, []byte(src), 0o644)
	ov := map[string]map[string]string{"Replace": {filepath.Join(pkgDir, "zz_verif_replay_test.go"): testFile}}
	ovData, _ := json.Marshal(ov)
	ovFile := filepath.Join(tmp, "overlay.json")
	os.WriteFile(ovFile, ovData, 0o644)
	cmdArgs := []string{"test", "-overlay", ovFile, "-vet=off", "-count=1", "-v", "-timeout", "60s", "-run", "^TestVerifReplay$", "./" + rel}
	rf.Command = "cd " + repo + " && go " + strings.Join(cmdArgs, " ")
	ctx, cancel := context.WithTimeout(context.Background(), 10*time.Minute)
	defer cancel()
	cmd := exec.CommandContext(ctx, "go", cmdArgs...)
	cmd.Dir = repo
	cmd.Env = goEnv()
	var out bytes.Buffer
	cmd.Stdout, cmd.Stderr = &out, &out
	cmd.Run()
	rf.Output = truncate(out.String(), 6000)
	var observed map[string]interface{}
	for _, ln := range strings.Split(out.String(), "\n") {
		if i := strings.Index(ln, "VERIF-REPLAY: "); i >= 0 {
			json.Unmarshal([]byte(ln[i+len("VERIF-REPLAY: "):]), &observed)
		}
	}
	if observed == nil {
		write("replay did not run (build failure or timeout); see output")
		return path, false, "not-reproduced"
	}
	_, panicked := observed["panic"]
	switch o.Kind {
	case "nopanic":
		if panicked {
			write(fmt.Sprintf("REPRODUCED: the real function panics on the solver's input: %v", observed["panic"]))
			return path, true, "reproduced"
		}
		write("not reproduced: the real function does not panic on the solver's input (spurious counterexample)")
		return path, false, "not-reproduced"
	default:
		if panicked {
			write(fmt.Sprintf("not decided by replay: the real function panicked (%v); panicking runs are outside the functional contract", observed["panic"]))
			return path, false, "not-reproduced"
		}
		ok, detail := checkPostOnConcrete(p, r, fn, args, observed)
		switch ok {
		case "violated":
			write("REPRODUCED: the clause is false on the real function's actual output: " + detail)
			return path, true, "reproduced"
		case "holds":
			write("not reproduced: the clause holds on the real function's actual output (spurious counterexample): " + detail)
			return path, false, "not-reproduced"
		}
		write("replay ran but the clause could not be evaluated on the concrete output: " + detail)
		return path, false, "not-reproduced"
	}
}

func truncate(s string, n int) string {
	if len(s) > n {
		return s[:n] + "…"
	}
	return s
}

// checkPostOnConcrete evaluates the violated clause on the concrete inputs and the outputs
// observed from the real code, using the solver as the evaluator of the contract language.
func checkPostOnConcrete(p *Program, r *oblResult, fn *ssa.Function, args []concreteArg, observed map[string]interface{}) (string, string) {
	o := r.O
	fc := p.cs.Funcs[r.FR.Key]
	if fc == nil {
		return "unknown", "no contract"
	}
	var clause *Clause
	for i := range fc.Ensures {
		if strings.HasPrefix(o.Name, r.FR.Key+".ensures."+fc.Ensures[i].Label) {
			rest := o.Name[len(r.FR.Key+".ensures."+fc.Ensures[i].Label):]
			if rest == "" || strings.HasPrefix(rest, "[") {
				clause = &fc.Ensures[i]
			}
		}
	}
	if clause == nil {
		return "unknown", "clause not found"
	}
	ghostGlobals := map[string]bool{}
	for n := range p.cs.GhostVars {
		ghostGlobals[n] = true
	}
	if mentionsAny(clause.E, ghostGlobals) || strings.Contains(clause.Src, "old(") {
		return "unknown", "the clause speaks about ghost state or the pre-state heap, which a concrete run cannot observe"
	}
	ctx := newCtx()
	g := newGen(p, fn, fc, ctx)
	st := State{}
	g.entry = st
	g.stGet(st, "alloctop")
	g.bindParams(st)
	g.emitAxiomsFor(fc)
	for _, a := range args {
		for _, eq := range a.smtEq {
			ctx.assume(eq)
		}
		if sl, ok := a.goType.Underlying().(*types.Slice); ok && a.goExpr != "" && a.goExpr != "nil" {
			// pin slice contents
			n := "p_" + sanitize(a.name)
			es := ctx.sortOf(sl.Elem())
			comp := ctx.elemComp(es)
			inner := a.goExpr[strings.Index(a.goExpr, "{")+1 : len(a.goExpr)-1]
			var elems []string
			if strings.TrimSpace(inner) != "" {
				elems = strings.Split(inner, ", ")
			}
			ctx.assume(fmt.Sprintf("(and (= (s.len %s) %d) (= (s.off %s) 0) (> (s.ref %s) 0))", n, len(elems), n, n))
			for i, e := range elems {
				ctx.assume(fmt.Sprintf("(= (select (select %s (s.ref %s)) %d) %s)", g.stGet(st, comp), n, i, smtIntS(e)))
			}
		}
	}
	// ghosts stay existential?  A clause with ghosts holds for all ghost values satisfying requires;
	// the violation witness pins them to the model's values when they are integers.
	for _, gv := range fc.Ghosts {
		t, s, err := g.ghostDecl(gv)
		if err != nil {
			return "unknown", err.Error()
		}
		n := "gh_" + sanitize(gv.Name)
		ctx.declareOnce("ghost:"+n, fmt.Sprintf("(declare-const %s %s)", n, s))
		g.ghostEnv[gv.Name] = Val{T: n, S: s, GoT: t}
	}
	for _, cl := range fc.Requires {
		e := g.newEnv(st, st)
		if t, err := g.elabBool(cl.E, e); err == nil {
			ctx.assume(t)
		}
	}
	// results
	sig := fn.Signature.Results()
	var results []Val
	for i := 0; i < sig.Len(); i++ {
		rt := sig.At(i).Type()
		s := ctx.sortOf(rt)
		n := ctx.fresh("obs_r", s)
		ov := observed[fmt.Sprintf("r%d", i)]
		switch s {
		case "Int":
			f, ok := ov.(float64)
			if !ok {
				return "unknown", "result not numeric"
			}
			_ = f
			// JSON numbers lose precision beyond 2^53: re-read from raw text
			raw, _ := json.Marshal(ov)
			ctx.assume("(= " + n + " " + smtIntS(strings.TrimSuffix(string(raw), ".0")) + ")")
		case "Bool":
			b, ok := ov.(bool)
			if !ok {
				return "unknown", "result not boolean"
			}
			ctx.assume("(= " + n + " " + fmt.Sprint(b) + ")")
		case "Str":
			sv, ok := ov.(string)
			if !ok {
				return "unknown", "result not string"
			}
			for _, eq := range strPin(n, sv) {
				ctx.assume(eq)
			}
		case "Iface":
			if ov == nil {
				ctx.assume("(= " + n + " iface-nil)")
			} else {
				ctx.assume("(not (= " + n + " iface-nil))")
			}
		default:
			return "unknown", "result sort " + s + " not evaluable"
		}
		results = append(results, Val{T: n, S: s, GoT: rt})
	}
	e := g.newEnv(st, st)
	e.results = results
	for i := 0; i < sig.Len(); i++ {
		if nm := sig.At(i).Name(); nm != "" && nm != "_" {
			e.names[nm] = results[i]
		}
	}
	for i, rn := range fc.ResultNames {
		if rn != "" && i < len(results) {
			e.names[rn] = results[i]
		}
	}
	before := map[string]bool{}
	for k := range st {
		before[k] = true
	}
	t, err := g.elabBool(clause.E, e)
	if err != nil {
		return "unknown", err.Error()
	}
	// The harness observes results only. A clause that reads the heap (fields, maps, cells) speaks about a
	// post-state this run did not capture: evaluating it over an unconstrained heap would "refute" anything.
	for k := range st {
		if !before[k] && !strings.HasPrefix(k, "E_") && k != "alloctop" && k != epochKey {
			return "unknown", "the clause reads heap component " + k + ", which the replay harness does not observe"
		}
	}
	// A clause that goes through an uninterpreted function (a bodiless spec function, or the substring /
	// split abstractions of the string model) has no concrete value here: the solver is free to pick one that
	// falsifies it, which would "reproduce" anything.
	for _, u := range []string{"(sf_", "(scontains ", "(sfirst ", "(strimprefix "} {
		if strings.Contains(t, u) {
			return "unknown", "the clause is stated through the uninterpreted function " + strings.TrimSpace(u[1:]) + ", which has no concrete value in a replay"
		}
	}
	obsJSON, _ := json.Marshal(observed)
	// is the clause false on this concrete I/O for some admissible ghost?  (sat of ¬clause)
	neg := &Obligation{Name: "replay-eval", NAssume: len(ctx.assumes), Reach: "true", Cond: t, ctx: ctx}
	ans, raw := runZ3(neg.query(false), 20)
	switch ans {
	case "sat":
		return "violated", "observed " + string(obsJSON)
	case "unsat":
		return "holds", "observed " + string(obsJSON)
	}
	return "unknown", "solver answered " + ans + " evaluating the clause on " + string(obsJSON) + ": " + firstLine(raw)
}

// runBounded executes a bounded stand-in (an exhaustive test of the real function up to a stated bound).
func runBounded(bc BoundedCheck, repo, verif, tier string) (bool, string, float64) {
	t0 := time.Now()
	tmp, err := os.MkdirTemp("", "govc-bounded-")
	if err != nil {
		return false, err.Error(), 0
	}
	defer os.RemoveAll(tmp)
	src, err := os.ReadFile(filepath.Join(verif, "bounded", bc.Test))
	if err != nil {
		return false, err.Error(), 0
	}
	tf := filepath.Join(tmp, "zz_verif_bounded_test.go")
	os.WriteFile(tf, src, 0o644)
	rel := strings.TrimPrefix(bc.Package, "./")
	ov := map[string]map[string]string{"Replace": {filepath.Join(repo, rel, "zz_verif_bounded_test.go"): tf}}
	ovData, _ := json.Marshal(ov)
	ovFile := filepath.Join(tmp, "overlay.json")
	os.WriteFile(ovFile, ovData, 0o644)
	timeout := "120s"
	if tier == "thorough" {
		timeout = "900s"
	}
	run := func(timeout string) (error, string) {
		cmd := exec.Command("go", "test", "-overlay", ovFile, "-vet=off", "-count=1", "-timeout", timeout, "-run", bc.Run, "./"+rel)
		cmd.Dir = repo
		cmd.Env = append(goEnv(), "VERIF_TIER="+tier)
		var out bytes.Buffer
		cmd.Stdout, cmd.Stderr = &out, &out
		err := cmd.Run()
		return err, out.String()
	}
	err, out := run(timeout)
	if err != nil && strings.Contains(out, "panic: test timed out") {
		// a stand-in that ran out of time on a busy machine has found nothing: run it once more with a generous
		// limit before anything is reported
		err, out = run("1800s")
	}
	return err == nil, out, time.Since(t0).Seconds()
}
