package main

// Elaboration of contract expressions into SMT terms.

import (
	"fmt"
	"go/types"
	"os"
	"strings"

	"golang.org/x/tools/go/ssa"
)

type env struct {
	names   map[string]Val
	st      State // current heap
	old     State // heap at function entry (old(...))
	pre     State // heap at loop entry (pre(...))
	results []Val
	callArgs []Val // arguments of the call a point assertion / ghost assignment is anchored at (callarg0 …)
	atBlock *ssa.BasicBlock // for resolving source locals (loop invariants)
	atInstr ssa.Instruction
	atEnd   bool // names resolve at the end of atBlock (return state) instead of its entry
	inOld   bool // inside old(...): parameter names mean their entry values
	curParams bool // loop invariants / point assertions / ghost assignments: a reassigned parameter's name means its current value
	depth   int
}

func (g *gen) newEnv(st, old State) *env {
	e := &env{names: map[string]Val{}, st: st, old: old, pre: old}
	for k, v := range g.paramEnv {
		e.names[k] = v
	}
	for k, v := range g.ghostEnv {
		e.names[k] = v
	}
	return e
}

func (e *env) with(st State) *env {
	n := *e
	n.st = st
	return &n
}

func (e *env) bindName(name string, v Val) *env {
	n := *e
	n.names = make(map[string]Val, len(e.names)+1)
	for k, x := range e.names {
		n.names[k] = x
	}
	n.names[name] = v
	return &n
}

// specSort maps a spec-level type name to an SMT sort (ghost/binder declarations).
func (g *gen) specSort(name string, t types.Type) string {
	switch name {
	case "int", "byte", "int64", "uint64", "nat":
		return "Int"
	case "bool":
		return "Bool"
	case "string", "seq":
		return "Str"
	case "intarray":
		return "(Array Int Int)"
	}
	if t != nil {
		return g.ctx.sortOf(t)
	}
	return "Int"
}

func (g *gen) ghostDecl(gv GhostVar) (types.Type, string, error) {
	t, err := g.prog.specType(gv.Type, g.fn)
	if err != nil {
		switch gv.Type {
		case "seq", "nat", "intarray":
			return nil, g.specSort(gv.Type, nil), nil
		}
		return nil, "Int", err
	}
	// ghost integers are mathematical: no machine range is attached
	return t, g.specSort(gv.Type, t), nil
}

func (g *gen) elabBool(x *Expr, e *env) (string, error) {
	v, err := g.elab(x, e)
	if err != nil {
		return "", err
	}
	if v.S != "Bool" {
		return "", fmt.Errorf("expected boolean, got %s in %s", v.S, x)
	}
	return v.T, nil
}

func (g *gen) elab(x *Expr, e *env) (v Val, err error) {
	defer func() {
		if r := recover(); r != nil {
			if u, ok := r.(unsupportedErr); ok {
				err = fmt.Errorf("%s", string(u))
				return
			}
			panic(r)
		}
	}()
	return g.elab1(x, e)
}

func intVal(t string) Val { return Val{T: t, S: "Int", GoT: types.Typ[types.Int]} }
func boolVal(t string) Val { return Val{T: t, S: "Bool", GoT: types.Typ[types.Bool]} }

func (g *gen) elab1(x *Expr, e *env) (Val, error) {
	switch x.Op {
	case "int":
		return intVal(smtIntS(x.S)), nil
	case "str":
		return Val{T: g.ctx.strLit(x.S), S: "Str", GoT: types.Typ[types.String]}, nil
	case "name":
		return g.elabName(x.S, e)
	case "old":
		eo := e.with(e.old)
		eo.inOld = true
		return g.elab1(x.Args[0], eo)
	case "pre":
		return g.elab1(x.Args[0], e.with(e.pre))
	case "un":
		a, err := g.elab1(x.Args[0], e)
		if err != nil {
			return Val{}, err
		}
		if x.S == "!" {
			if a.S != "Bool" {
				return Val{}, fmt.Errorf("! applied to %s", a.S)
			}
			return boolVal(not(a.T)), nil
		}
		return intVal("(- " + a.T + ")"), nil
	case "cond":
		c, err := g.elab1(x.Args[0], e)
		if err != nil {
			return Val{}, err
		}
		a, err := g.elab1(x.Args[1], e)
		if err != nil {
			return Val{}, err
		}
		b, err := g.elab1(x.Args[2], e)
		if err != nil {
			return Val{}, err
		}
		a, b = g.coerce(a, b)
		return Val{T: "(ite " + c.T + " " + a.T + " " + b.T + ")", S: a.S, GoT: a.GoT}, nil
	case "bin":
		return g.elabBin(x, e)
	case "inset":
		a, err := g.elab1(x.Args[0], e)
		if err != nil {
			return Val{}, err
		}
		var alts []string
		for _, m := range x.Args[1:] {
			b, err := g.elab1(m, e)
			if err != nil {
				return Val{}, err
			}
			a2, b2 := g.coerce(a, b)
			alts = append(alts, "(= "+a2.T+" "+b2.T+")")
		}
		return boolVal(or(alts...)), nil
	case "field":
		return g.elabField(x, e)
	case "index":
		return g.elabIndex(x, e)
	case "slice":
		a, err := g.elab1(x.Args[0], e)
		if err != nil {
			return Val{}, err
		}
		lo, err := g.elab1(x.Args[1], e)
		if err != nil {
			return Val{}, err
		}
		hi, err := g.elab1(x.Args[2], e)
		if err != nil {
			return Val{}, err
		}
		switch a.S {
		case "Str":
			return Val{T: "(ssub " + a.T + " " + lo.T + " " + hi.T + ")", S: "Str", GoT: a.GoT}, nil
		case "Slice":
			return Val{T: "(mk-slice (s.ref " + a.T + ") (+ (s.off " + a.T + ") " + lo.T + ") (- " + hi.T + " " + lo.T + ") (- (s.cap " + a.T + ") " + lo.T + "))", S: "Slice", GoT: a.GoT}, nil
		}
		return Val{}, fmt.Errorf("cannot slice %s", a.S)
	case "call":
		return g.elabCall(x, e)
	case "forall", "exists":
		return g.elabQuant(x, e)
	}
	return Val{}, fmt.Errorf("unsupported expression %s", x)
}

func (g *gen) elabName(name string, e *env) (Val, error) {
	// A parameter that the body reassigns (`i++`) has a current value at a program point (loop invariant, point
	// assertion, return) that differs from its entry value: at such points the name means the current value;
	// `old(name)` means the value at entry.
	if _, isParam := g.paramEnv[name]; isParam && e.atBlock != nil && e.curParams && !e.inOld && !g.paramInCell(name) {
		if v, ok := g.lookupLocal(name, e); ok {
			return v, nil
		}
	}
	if v, ok := e.names[name]; ok {
		if v.L != nil && v.T == "" {
			// address-taken local: read the cell in the current state
			return Val{T: g.loadLoc(e.st, v.L), S: v.L.Sort, GoT: v.L.GoT}, nil
		}
		return v, nil
	}
	switch name {
	case "true":
		return boolVal("true"), nil
	case "false":
		return boolVal("false"), nil
	case "nil":
		return Val{T: "0", S: "Nil"}, nil
	case "result":
		if len(e.results) >= 1 {
			return e.results[0], nil
		}
		// inside the body (loop invariants, point assertions, ghost assignments) a source variable that happens
		// to be called `result` is meant
		if e.atBlock != nil {
			if v, ok := g.lookupLocal("result", e); ok {
				return v, nil
			}
		}
		return Val{}, fmt.Errorf("result used in a function without results")
	case "iter":
		if e.atBlock != nil {
			if v, ok := g.lookupLocal("rangeindex", e); ok {
				return intVal("(+ " + v.T + " 1)"), nil
			}
		}
	case "alloctop":
		return intVal(g.stGet(e.st, "alloctop")), nil
	}
	if strings.HasPrefix(name, "visited") {
		n := len(g.rangeComps)
		if name != "visited" {
			if _, err := fmt.Sscanf(name, "visited%d", &n); err != nil {
				n = 0
			}
		}
		if n >= 1 && n <= len(g.rangeComps) && (name != "visited" || len(g.rangeComps) == 1) {
			comp := g.rangeComps[n-1]
			return Val{T: g.stGet(e.st, comp), S: g.ctx.compSort[comp]}, nil
		}
	}
	if strings.HasPrefix(name, "callarg") {
		var i int
		if _, err := fmt.Sscanf(name, "callarg%d", &i); err == nil && i < len(e.callArgs) {
			return e.callArgs[i], nil
		}
	}
	if strings.HasPrefix(name, "result") {
		var i int
		if _, err := fmt.Sscanf(name, "result%d", &i); err == nil && i < len(e.results) {
			return e.results[i], nil
		}
	}
	if _, ok := g.cs.GhostVars[name]; ok {
		comp := g.ghostComp(name)
		t, _ := g.prog.specType(g.cs.GhostVars[name], g.fn)
		return Val{T: g.stGet(e.st, comp), S: g.ctx.compSort[comp], GoT: t}, nil
	}
	if e.atBlock != nil {
		if v, ok := g.lookupLocal(name, e); ok {
			return v, nil
		}
	}
	// package-level constants and variables
	if g.fn != nil && g.fn.Pkg != nil {
		if obj := g.fn.Pkg.Pkg.Scope().Lookup(name); obj != nil {
			switch o := obj.(type) {
			case *types.Const:
				c := ssa.NewConst(o.Val(), o.Type())
				return g.constVal(c), nil
			case *types.Var:
				if gl, ok := g.fn.Pkg.Members[name].(*ssa.Global); ok {
					if t, ok := sentinelErr(gl); ok {
						return Val{T: t, S: "Iface", GoT: o.Type()}, nil
					}
					gv := g.val(gl)
					return Val{T: g.loadLoc(e.st, gv.L), S: gv.L.Sort, GoT: gv.L.GoT}, nil
				}
			}
		}
	}
	// sentinel errors of other loaded packages (a callee's contract is elaborated at call sites elsewhere)
	for _, sp := range g.prog.spkgs {
		if sp == nil {
			continue
		}
		if gl, ok := sp.Members[name].(*ssa.Global); ok {
			if t, ok := sentinelErr(gl); ok {
				return Val{T: t, S: "Iface", GoT: gl.Type().(*types.Pointer).Elem()}, nil
			}
		}
	}
	// constants of other loaded packages (contracts are evaluated at call sites in other packages too)
	for _, pk := range g.prog.pkgs {
		if obj, ok := pk.Types.Scope().Lookup(name).(*types.Const); ok {
			return g.constVal(ssa.NewConst(obj.Val(), obj.Type())), nil
		}
	}
	if os.Getenv("GOVC_DEBUG") != "" {
		blk := -1
		if e.atBlock != nil {
			blk = e.atBlock.Index
		}
		fmt.Fprintf(os.Stderr, "DEBUG unknown name %q atBlock=%d atEnd=%v fn=%s\n", name, blk, e.atEnd, g.fnKey)
	}
	return Val{}, fmt.Errorf("unknown name %q", name)
}

// pkgConst resolves pkg.Name to a constant of a loaded or imported package.
func (g *gen) pkgConst(pkg, name string) (Val, bool) {
	var found *types.Const
	visit := func(tp *types.Package) {
		if found == nil && tp.Name() == pkg {
			if c, ok := tp.Scope().Lookup(name).(*types.Const); ok {
				found = c
			}
		}
	}
	for _, pk := range g.prog.pkgs {
		visit(pk.Types)
		for _, imp := range pk.Types.Imports() {
			visit(imp)
		}
	}
	if found == nil {
		return Val{}, false
	}
	return g.constVal(ssa.NewConst(found.Val(), found.Type())), true
}

// lookupLocal finds the SSA value of source variable `name` reaching the entry of e.atBlock.
func (g *gen) lookupLocal(name string, e *env) (Val, bool) {
	b := e.atBlock
	// phis of the block itself
	for _, in := range b.Instrs {
		phi, ok := in.(*ssa.Phi)
		if !ok {
			break
		}
		if phi.Comment == name {
			if v, ok := g.vals[phi]; ok {
				return v, true
			}
		}
	}
	start := b.Idom()
	if e.atEnd {
		start = b
	}
	for d := start; d != nil; d = d.Idom() {
		for i := len(d.Instrs) - 1; i >= 0; i-- {
			switch in := d.Instrs[i].(type) {
			case *ssa.DebugRef:
				if identName(in) == name {
					if fv, isVar := in.Object().(*types.Var); isVar && fv.IsField() {
						continue // the Sel identifier of a field selector `x.name`, not a local
					}
					if in.IsAddr {
						av, ok := g.vals[in.X]
						if !ok {
							continue
						}
						pt, ok2 := in.X.Type().Underlying().(*types.Pointer)
						if !ok2 {
							continue
						}
						loc := g.derefLocQuiet(av, pt)
						return Val{T: g.loadLoc(e.st, loc), S: loc.Sort, GoT: loc.GoT}, true
					}
					if v, ok := g.vals[in.X]; ok {
						return v, true
					}
					if c, ok := in.X.(*ssa.Const); ok {
						return g.constVal(c), true
					}
				}
			case *ssa.Phi:
				if in.Comment == name {
					if v, ok := g.vals[in]; ok {
						return v, true
					}
				}
			}
		}
	}
	return Val{}, false
}

func (g *gen) derefLocQuiet(p Val, pt *types.Pointer) *Loc {
	if p.L != nil {
		return p.L
	}
	t := pt.Elem()
	switch u := locUnder(t).(type) {
	case *types.Struct:
		return &Loc{Comp: "", Idx: []string{p.T}, Sort: g.ctx.sortOf(t), GoT: t}
	case *types.Array:
		return &Loc{Comp: g.ctx.elemComp(g.ctx.sortOf(u.Elem())), Idx: []string{p.T}, Sort: g.ctx.sortOf(t), GoT: t}
	}
	s := g.ctx.sortOf(t)
	return &Loc{Comp: g.ctx.cellComp(s), Idx: []string{p.T}, Sort: s, GoT: t}
}

// coerce reconciles nil literals and interface/concrete pairs.
func (g *gen) coerce(a, b Val) (Val, Val) {
	if a.S == "Nil" && b.S != "Nil" {
		a = g.nilOf(b)
	}
	if b.S == "Nil" && a.S != "Nil" {
		b = g.nilOf(a)
	}
	if a.S == "Iface" && b.S != "Iface" && b.GoT != nil {
		b = Val{T: g.box(b, b.GoT), S: "Iface", GoT: a.GoT}
	}
	if b.S == "Iface" && a.S != "Iface" && a.GoT != nil {
		a = Val{T: g.box(a, a.GoT), S: "Iface", GoT: b.GoT}
	}
	return a, b
}

func (g *gen) nilOf(like Val) Val {
	switch like.S {
	case "Iface":
		return Val{T: "iface-nil", S: "Iface", GoT: like.GoT}
	case "Slice":
		return Val{T: "(mk-slice 0 0 0 0)", S: "Slice", GoT: like.GoT}
	}
	return Val{T: "0", S: like.S, GoT: like.GoT}
}

func (g *gen) elabBin(x *Expr, e *env) (Val, error) {
	a, err := g.elab1(x.Args[0], e)
	if err != nil {
		return Val{}, err
	}
	b, err := g.elab1(x.Args[1], e)
	if err != nil {
		return Val{}, err
	}
	switch x.S {
	case "&&":
		return boolVal(and(a.T, b.T)), nil
	case "||":
		return boolVal(or(a.T, b.T)), nil
	case "==>":
		return boolVal(implies(a.T, b.T)), nil
	case "<==>":
		return boolVal("(= " + a.T + " " + b.T + ")"), nil
	case "==", "!=":
		a, b = g.coerce(a, b)
		var eq string
		switch {
		case a.S == "Slice" && (b.T == "(mk-slice 0 0 0 0)"):
			eq = "(= (s.ref " + a.T + ") 0)"
		case a.S == "Slice" && a.T == "(mk-slice 0 0 0 0)":
			eq = "(= (s.ref " + b.T + ") 0)"
		case a.S == "Float64" || a.S == "Float32":
			eq = "(fp.eq " + a.T + " " + b.T + ")"
		case a.S == "Str" && b.S == "Str" && isStrLitName(a.T) && isStrLitName(b.T):
			// two literals: decided here (distinct literal names are distinct texts)
			if a.T == b.T {
				eq = "true"
			} else {
				eq = "false"
			}
		default:
			if a.S != b.S {
				return Val{}, fmt.Errorf("comparing %s with %s in %s", a.S, b.S, x)
			}
			eq = "(= " + a.T + " " + b.T + ")"
		}
		if x.S == "!=" {
			eq = not(eq)
		}
		return boolVal(eq), nil
	case "<", "<=", ">", ">=":
		if a.S == "Float64" || a.S == "Float32" {
			fop := map[string]string{"<": "fp.lt", "<=": "fp.leq", ">": "fp.gt", ">=": "fp.geq"}[x.S]
			return boolVal("(" + fop + " " + a.T + " " + b.T + ")"), nil
		}
		if a.S != "Int" || b.S != "Int" {
			return Val{}, fmt.Errorf("ordering on %s/%s in %s", a.S, b.S, x)
		}
		return boolVal("(" + x.S + " " + a.T + " " + b.T + ")"), nil
	case "+":
		if a.S == "Str" {
			return Val{T: "(sconcat " + a.T + " " + b.T + ")", S: "Str", GoT: a.GoT}, nil
		}
		return intVal("(+ " + a.T + " " + b.T + ")"), nil
	case "-":
		return intVal("(- " + a.T + " " + b.T + ")"), nil
	case "*":
		return intVal("(* " + a.T + " " + b.T + ")"), nil
	case "/":
		return intVal("(tdiv " + a.T + " " + b.T + ")"), nil
	case "%":
		return intVal("(tmod " + a.T + " " + b.T + ")"), nil
	}
	return Val{}, fmt.Errorf("unsupported operator %s", x.S)
}

func (g *gen) elabField(x *Expr, e *env) (Val, error) {
	// package-qualified constant, e.g. time.Hour
	if x.Args[0].Op == "name" {
		if _, bound := e.names[x.Args[0].S]; !bound {
			if v, ok := g.pkgConst(x.Args[0].S, x.S); ok {
				return v, nil
			}
			// package-qualified sentinel error, e.g. io.EOF — or any other package-level variable of an imported
			// package (msgpcode.Uint64 is a `var`): its current value, read like the code reads it
			for _, sp := range g.prog.prog.AllPackages() {
				if sp.Pkg.Name() == x.Args[0].S {
					if gl, ok := sp.Members[x.S].(*ssa.Global); ok {
						if t, ok := sentinelErr(gl); ok {
							return Val{T: t, S: "Iface", GoT: gl.Type().(*types.Pointer).Elem()}, nil
						}
						if g.fn != nil {
							for _, imp := range g.fn.Pkg.Pkg.Imports() {
								if imp == sp.Pkg {
									gv := g.val(gl)
									if gv.L != nil {
										return Val{T: g.loadLoc(e.st, gv.L), S: gv.L.Sort, GoT: gv.L.GoT}, nil
									}
								}
							}
						}
					}
				}
			}
		}
	}
	a, err := g.elab1(x.Args[0], e)
	if err != nil {
		return Val{}, err
	}
	if a.GoT == nil {
		return Val{}, fmt.Errorf("field %s of value without Go type (%s)", x.S, x.Args[0])
	}
	t := a.GoT
	ref := a.T
	isPtr := false
	if pt, ok := t.Underlying().(*types.Pointer); ok {
		t = pt.Elem()
		isPtr = true
	}
	su, ok := t.Underlying().(*types.Struct)
	if !ok {
		return Val{}, fmt.Errorf("field %s of non-struct %s", x.S, t)
	}
	ss := g.ctx.sortOf(t)
	// find field, searching embedded structs one level deep
	for i := 0; i < su.NumFields(); i++ {
		f := su.Field(i)
		if f.Name() == x.S {
			if isPtr {
				comp := g.ctx.fieldComp(ss, su, i)
				return Val{T: "(select " + g.stGet(e.st, comp) + " " + ref + ")", S: g.ctx.sortOf(f.Type()), GoT: f.Type()}, nil
			}
			return Val{T: "(" + g.accessor(ss, i) + " " + a.T + ")", S: g.ctx.sortOf(f.Type()), GoT: f.Type()}, nil
		}
	}
	for i := 0; i < su.NumFields(); i++ {
		f := su.Field(i)
		if !f.Embedded() {
			continue
		}
		var inner Val
		if isPtr {
			comp := g.ctx.fieldComp(ss, su, i)
			inner = Val{T: "(select " + g.stGet(e.st, comp) + " " + ref + ")", S: g.ctx.sortOf(f.Type()), GoT: f.Type()}
		} else {
			inner = Val{T: "(" + g.accessor(ss, i) + " " + a.T + ")", S: g.ctx.sortOf(f.Type()), GoT: f.Type()}
		}
		e2 := e.bindName("__emb", inner)
		if v, err := g.elabField(&Expr{Op: "field", S: x.S, Args: []*Expr{{Op: "name", S: "__emb"}}}, e2); err == nil {
			return v, nil
		}
	}
	return Val{}, fmt.Errorf("no field %s in %s", x.S, shortType(t))
}

func (g *gen) elabIndex(x *Expr, e *env) (Val, error) {
	a, err := g.elab1(x.Args[0], e)
	if err != nil {
		return Val{}, err
	}
	i, err := g.elab1(x.Args[1], e)
	if err != nil {
		return Val{}, err
	}
	switch a.S {
	case "Str":
		return Val{T: "(sat " + a.T + " " + i.T + ")", S: "Int", GoT: types.Typ[types.Uint8]}, nil
	case "Slice":
		if a.GoT == nil {
			return Val{}, fmt.Errorf("index of untyped slice")
		}
		et := a.GoT.Underlying().(*types.Slice).Elem()
		es := g.ctx.sortOf(et)
		comp := g.ctx.elemComp(es)
		if strings.HasPrefix(i.T, "(- q_") && strings.HasSuffix(i.T, " (s.off "+a.T+"))") {
			// absolute-index quantifier (see elabQuant): off + (q - off) = q
			q := strings.TrimSuffix(strings.TrimPrefix(i.T, "(- "), " (s.off "+a.T+"))")
			return Val{T: "(select (select " + g.stGet(e.st, comp) + " (s.ref " + a.T + ")) " + q + ")", S: es, GoT: et}, nil
		}
		return Val{T: "(select (select " + g.stGet(e.st, comp) + " (s.ref " + a.T + ")) (idx (s.off " + a.T + ") " + i.T + "))", S: es, GoT: et}, nil
	}
	if strings.HasPrefix(a.S, "(Array Int ") && a.GoT == nil {
		return Val{T: "(select " + a.T + " " + i.T + ")", S: a.S[len("(Array Int ") : len(a.S)-1]}, nil
	}
	if strings.HasPrefix(a.S, "(Array ") && strings.HasSuffix(a.S, " Bool)") && a.GoT == nil {
		return boolVal("(select " + a.T + " " + i.T + ")"), nil
	}
	if a.GoT != nil {
		switch u := a.GoT.Underlying().(type) {
		case *types.Map:
			ks, vs := g.ctx.sortOf(u.Key()), g.ctx.sortOf(u.Elem())
			if ks == "Iface" && i.S != "Iface" && i.GoT != nil {
				i = Val{T: g.box(i, i.GoT), S: "Iface"}
			}
			dom, val, _ := g.ctx.mapCompsT(a.GoT)
			_ = dom
			g.mapWF(e.st, a.GoT)
			got := "(select (select " + g.stGet(e.st, val) + " " + a.T + ") " + i.T + ")"
			return Val{T: got, S: vs, GoT: u.Elem()}, nil
		case *types.Array:
			return Val{T: "(select " + a.T + " " + i.T + ")", S: g.ctx.sortOf(u.Elem()), GoT: u.Elem()}, nil
		case *types.Pointer:
			if at, ok := u.Elem().Underlying().(*types.Array); ok {
				es := g.ctx.sortOf(at.Elem())
				return Val{T: "(select (select " + g.stGet(e.st, g.ctx.elemComp(es)) + " " + a.T + ") " + i.T + ")", S: es, GoT: at.Elem()}, nil
			}
		}
	}
	return Val{}, fmt.Errorf("cannot index %s (%s)", x.Args[0], a.S)
}

func (g *gen) elabQuant(x *Expr, e *env) (Val, error) {
	var binds []string
	var guards []string
	cur := e
	// Bound variables of a quantifier nested inside another one get a depth suffix: a pure function such as
	// inStrings(s, m) binds `k`, and an argument `m` that mentions the caller's own `k` must not be captured.
	qsuf := ""
	if g.qdepth > 0 {
		qsuf = fmt.Sprintf("_d%d", g.qdepth)
	}
	g.qdepth++
	defer func() { g.qdepth-- }()
	// Absolute-index form: `forall i {s[i]} :: P(i)` over a slice s is emitted as a quantifier over the
	// absolute array index q (= off(s) + i) with the pattern (select elems(s) q), so that it is instantiated
	// by reads through any alias of the same backing array (sub-slices with another offset), which the
	// relative pattern (idx off(s) i) does not match.
	var absSlice *Val
	absPat := ""
	if len(x.Binders) == 1 && x.Binders[0].Keys == nil && (x.Binders[0].Type == "" || x.Binders[0].Type == "int") &&
		len(x.Triggers) == 1 && len(x.Triggers[0]) == 1 && os.Getenv("GOVC_NOABS") == "" {
		t := x.Triggers[0][0]
		if t.Op == "index" && t.Args[1].Op == "name" && t.Args[1].S == x.Binders[0].Name {
			if a, err := g.elab1(t.Args[0], e); err == nil && a.S == "Slice" && a.GoT != nil {
				if st, ok := a.GoT.Underlying().(*types.Slice); ok {
					absSlice = &a
					comp := g.ctx.elemComp(g.ctx.sortOf(st.Elem()))
					absPat = "(select (select " + g.stGet(e.st, comp) + " (s.ref " + a.T + ")) q_" + x.Binders[0].Name + qsuf + ")"
				}
			}
		}
	}
	for _, b := range x.Binders {
		s := "Int"
		var gt types.Type = types.Typ[types.Int]
		if b.Type != "" {
			t, err := g.prog.specType(b.Type, g.fn)
			if err != nil && b.Type != "seq" && b.Type != "nat" && b.Type != "intarray" {
				return Val{}, fmt.Errorf("binder %s: %v", b.Name, err)
			}
			s, gt = g.specSort(b.Type, t), t
		}
		var keyGuard string
		if b.Keys != nil {
			m, err := g.elab1(b.Keys, cur)
			if err != nil {
				return Val{}, err
			}
			mt, ok := m.GoT.Underlying().(*types.Map)
			if !ok {
				return Val{}, fmt.Errorf("keys() of non-map")
			}
			s, gt = g.ctx.sortOf(mt.Key()), mt.Key()
			dom, _, _ := g.ctx.mapCompsT(m.GoT)
			keyGuard = "(and (not (= " + m.T + " 0)) (select (select " + g.stGet(cur.st, dom) + " " + m.T + ") " + "q_" + b.Name + qsuf + "))"
		}
		qn := "q_" + b.Name + qsuf
		binds = append(binds, "("+qn+" "+s+")")
		bv := qn
		if absSlice != nil {
			bv = "(- " + qn + " (s.off " + absSlice.T + "))"
		}
		cur = cur.bindName(b.Name, Val{T: bv, S: s, GoT: gt})
		if keyGuard != "" {
			guards = append(guards, keyGuard)
		}
		if b.Lo != nil {
			lo, err := g.elab1(b.Lo, cur)
			if err != nil {
				return Val{}, err
			}
			hi, err := g.elab1(b.Hi, cur)
			if err != nil {
				return Val{}, err
			}
			guards = append(guards, "(<= "+lo.T+" "+bv+")", "(< "+bv+" "+hi.T+")")
		}
	}
	body, err := g.elabBool(x.Args[0], cur)
	if err != nil {
		return Val{}, err
	}
	var pats string
	if absSlice != nil {
		pats = " :pattern (" + absPat + ")"
	}
	for _, tr := range x.Triggers {
		if absSlice != nil {
			break
		}
		var ts []string
		for _, t := range tr {
			tv, err := g.elabTrigger(t, cur)
			if err != nil {
				return Val{}, err
			}
			ts = append(ts, tv)
		}
		pats += " :pattern (" + strings.Join(ts, " ") + ")"
	}
	var inner string
	if x.Op == "forall" {
		inner = implies(and(guards...), body)
	} else {
		inner = and(append(guards, body)...)
	}
	if pats != "" {
		inner = "(! " + inner + pats + ")"
	}
	return boolVal("(" + x.Op + " (" + strings.Join(binds, " ") + ") " + inner + ")"), nil
}

func isStrLitName(t string) bool {
	return t == "str_empty" || strings.HasPrefix(t, "strlit!")
}

func normSQL(s string) string {
	return strings.ToUpper(strings.Join(strings.Fields(s), " "))
}

// stringOrigin: the literal text (or literal head of a Sprintf format) a string term was built from.
func (g *gen) stringOrigin(term string) (head string, whole bool, known bool) {
	for lit, name := range g.ctx.strLits {
		if name == term {
			return lit, true, true
		}
	}
	if term == "str_empty" {
		return "", true, true
	}
	if f, ok := g.sprintfOrigin[term]; ok {
		if i := strings.Index(f, "%"); i >= 0 {
			return f[:i], false, true
		}
		return f, true, true
	}
	return "", false, false
}

// elabTrigger elaborates a quantifier pattern. Map membership and map reads are guarded terms
// (`and`/`ite`), which solvers reject inside patterns; their raw `select` cores are used instead.
func (g *gen) elabTrigger(t *Expr, e *env) (string, error) {
	mapCore := func(mx, kx *Expr, wantVal bool) (string, bool, error) {
		m, err := g.elab1(mx, e)
		if err != nil {
			return "", false, err
		}
		if m.GoT == nil {
			return "", false, nil
		}
		mt, ok := m.GoT.Underlying().(*types.Map)
		if !ok {
			return "", false, nil
		}
		k, err := g.elab1(kx, e)
		if err != nil {
			return "", false, err
		}
		ks := g.ctx.sortOf(mt.Key())
		if ks == "Iface" && k.S != "Iface" && k.GoT != nil {
			k = Val{T: g.box(k, k.GoT), S: "Iface"}
		}
		dom, val, _ := g.ctx.mapCompsT(m.GoT)
		comp := dom
		if wantVal {
			comp = val
		}
		return "(select (select " + g.stGet(e.st, comp) + " " + m.T + ") " + k.T + ")", true, nil
	}
	if t.Op == "call" && t.S == "has" && len(t.Args) == 2 {
		if s, ok, err := mapCore(t.Args[0], t.Args[1], false); err != nil || ok {
			return s, err
		}
	}
	if t.Op == "index" {
		if s, ok, err := mapCore(t.Args[0], t.Args[1], true); err != nil {
			return "", err
		} else if ok {
			return s, nil
		}
	}
	if t.Op == "old" || t.Op == "pre" {
		st := e.old
		if t.Op == "pre" {
			st = e.pre
		}
		return g.elabTrigger(t.Args[0], e.with(st))
	}
	tv, err := g.elab1(t, e)
	if err != nil {
		return "", err
	}
	return tv.T, nil
}

func (g *gen) elabCall(x *Expr, e *env) (Val, error) {
	args := func() ([]Val, error) {
		var out []Val
		for _, a := range x.Args {
			v, err := g.elab1(a, e)
			if err != nil {
				return nil, err
			}
			out = append(out, v)
		}
		return out, nil
	}
	switch x.S {
	case "len":
		as, err := args()
		if err != nil {
			return Val{}, err
		}
		a := as[0]
		switch a.S {
		case "Str":
			return intVal("(slen " + a.T + ")"), nil
		case "Slice":
			return intVal("(s.len " + a.T + ")"), nil
		}
		if a.GoT != nil {
			if _, ok := a.GoT.Underlying().(*types.Map); ok {
				_, _, size := g.ctx.mapCompsT(a.GoT)
				return intVal("(ite (= " + a.T + " 0) 0 (select " + g.stGet(e.st, size) + " " + a.T + "))"), nil
			}
			if at, ok := a.GoT.Underlying().(*types.Array); ok {
				return intVal(fmt.Sprint(at.Len())), nil
			}
			if _, ok := a.GoT.Underlying().(*types.Chan); ok {
				comp := g.ctx.comp("chanlen", "(Array Int Int)")
				return intVal("(select " + g.stGet(e.st, comp) + " " + a.T + ")"), nil
			}
		}
		return Val{}, fmt.Errorf("len of %s", a.S)
	case "cap":
		as, err := args()
		if err != nil {
			return Val{}, err
		}
		return intVal("(s.cap " + as[0].T + ")"), nil
	case "sentinel":
		// sentinel(err): err is one of the package-level sentinel error values (io.EOF, ErrX …)
		as, err := args()
		if err != nil {
			return Val{}, err
		}
		if len(as) != 1 || as[0].S != "Iface" {
			return Val{}, fmt.Errorf("sentinel(err) needs an interface value")
		}
		return boolVal("(and ((_ is iface-mk) " + as[0].T + ") (or (= (i.tag " + as[0].T + ") 1000000) (= (i.tag " + as[0].T + ") 1000001)))"), nil
	case "has":
		as, err := args()
		if err != nil {
			return Val{}, err
		}
		m, k := as[0], as[1]
		mt, ok := m.GoT.Underlying().(*types.Map)
		if !ok {
			return Val{}, fmt.Errorf("has() of non-map")
		}
		ks := g.ctx.sortOf(mt.Key())
		if ks == "Iface" && k.S != "Iface" && k.GoT != nil {
			k = Val{T: g.box(k, k.GoT), S: "Iface"}
		}
		dom, _, _ := g.ctx.mapCompsT(m.GoT)
		return boolVal("(and (not (= " + m.T + " 0)) (select (select " + g.stGet(e.st, dom) + " " + m.T + ") " + k.T + "))"), nil
	case "string":
		as, err := args()
		if err != nil {
			return Val{}, err
		}
		a := as[0]
		if a.S == "Str" {
			return a, nil
		}
		if a.S == "Slice" {
			comp := g.ctx.elemComp("Int")
			return Val{T: "(str_of (select " + g.stGet(e.st, comp) + " (s.ref " + a.T + ")) (s.off " + a.T + ") (s.len " + a.T + "))", S: "Str", GoT: types.Typ[types.String]}, nil
		}
		return Val{}, fmt.Errorf("string() of %s", a.S)
	case "int", "int64", "int32", "uint64", "uint32", "uint16", "uint8", "byte", "uint":
		as, err := args()
		if err != nil {
			return Val{}, err
		}
		return intVal(as[0].T), nil // mathematical: no wrap in specs
	case "emod", "ediv":
		as, err := args()
		if err != nil {
			return Val{}, err
		}
		op := "mod"
		if x.S == "ediv" {
			op = "div"
		}
		return intVal("(" + op + " " + as[0].T + " " + as[1].T + ")"), nil
	case "arr":
		// arr(s): the backing array of a slice as a mathematical array value
		as, err := args()
		if err != nil {
			return Val{}, err
		}
		a := as[0]
		if a.S != "Slice" || a.GoT == nil {
			return Val{}, fmt.Errorf("arr() of non-slice")
		}
		et := a.GoT.Underlying().(*types.Slice).Elem()
		es := g.ctx.sortOf(et)
		// typed as an array of the element type so that indexing keeps the element's Go type (field access)
		return Val{T: "(select " + g.stGet(e.st, g.ctx.elemComp(es)) + " (s.ref " + a.T + "))", S: "(Array Int " + es + ")", GoT: types.NewArray(et, 1<<40)}, nil
	case "deref":
		as, err := args()
		if err != nil {
			return Val{}, err
		}
		a := as[0]
		if a.GoT == nil {
			return Val{}, fmt.Errorf("deref of a value without Go type")
		}
		pt, ok := a.GoT.Underlying().(*types.Pointer)
		if !ok {
			return Val{}, fmt.Errorf("deref of non-pointer %s", a.GoT)
		}
		loc := g.derefLocQuiet(g.redirect(a), pt)
		return Val{T: g.loadLoc(e.st, loc), S: loc.Sort, GoT: loc.GoT}, nil
	case "sqlstarts":
		// sqlstarts(q, "DELETE FROM t"): decided at elaboration time from the text q was built from — a string
		// literal, or the literal head (up to the first %) of a constant fmt.Sprintf format. Whitespace is
		// normalised and case ignored. When q's origin is unknown the answer is an unconstrained boolean.
		if len(x.Args) != 2 || x.Args[1].Op != "str" {
			return Val{}, fmt.Errorf("sqlstarts(q, \"literal\")")
		}
		q, err := g.elab1(x.Args[0], e)
		if err != nil {
			return Val{}, err
		}
		want := normSQL(x.Args[1].S)
		head, whole, known := g.stringOrigin(q.T)
		if !known {
			g.ctx.note("sqlstarts on a string of unknown origin (unconstrained)")
			return boolVal(g.ctx.fresh("sqlstarts", "Bool")), nil
		}
		h := normSQL(head)
		switch {
		case strings.HasPrefix(h, want):
			return boolVal("true"), nil
		case whole || len(h) >= len(want) || !strings.HasPrefix(want, h):
			return boolVal("false"), nil
		}
		g.ctx.note("sqlstarts undecided by the literal head of a format (unconstrained)")
		return boolVal(g.ctx.fresh("sqlstarts", "Bool")), nil
	case "f2i":
		as, err := args()
		if err != nil {
			return Val{}, err
		}
		g.ctx.declareOnce("f2i", "(declare-fun f2i (Float64) Int)")
		return intVal("(f2i " + as[0].T + ")"), nil
	case "idx":
		as, err := args()
		if err != nil {
			return Val{}, err
		}
		return intVal("(idx " + as[0].T + " " + as[1].T + ")"), nil
	case "off":
		as, err := args()
		if err != nil {
			return Val{}, err
		}
		return intVal("(s.off " + as[0].T + ")"), nil
	case "ref":
		// ref(s): identity of the backing array of a slice
		as, err := args()
		if err != nil {
			return Val{}, err
		}
		if as[0].S != "Slice" {
			return Val{}, fmt.Errorf("ref(s) needs a slice")
		}
		return intVal("(s.ref " + as[0].T + ")"), nil
	case "store":
		as, err := args()
		if err != nil {
			return Val{}, err
		}
		return Val{T: "(store " + as[0].T + " " + as[1].T + " " + as[2].T + ")", S: as[0].S}, nil
	case "wrap64":
		as, err := args()
		if err != nil {
			return Val{}, err
		}
		return intVal("(wrap_s " + as[0].T + " 9223372036854775808)"), nil
	case "abs":
		as, err := args()
		if err != nil {
			return Val{}, err
		}
		return intVal("(ite (>= " + as[0].T + " 0) " + as[0].T + " (- " + as[0].T + "))"), nil
	case "min", "max":
		as, err := args()
		if err != nil {
			return Val{}, err
		}
		op := "<="
		if x.S == "max" {
			op = ">="
		}
		return intVal("(ite (" + op + " " + as[0].T + " " + as[1].T + ") " + as[0].T + " " + as[1].T + ")"), nil
	case "isnil":
		as, err := args()
		if err != nil {
			return Val{}, err
		}
		a := as[0]
		switch a.S {
		case "Iface":
			return boolVal("(= " + a.T + " iface-nil)"), nil
		case "Slice":
			return boolVal("(= (s.ref " + a.T + ") 0)"), nil
		}
		return boolVal("(= " + a.T + " 0)"), nil
	case "fresh":
		// fresh(p): p was allocated during this call
		as, err := args()
		if err != nil {
			return Val{}, err
		}
		if as[0].S == "Slice" {
			return boolVal("(>= (s.ref " + as[0].T + ") " + g.stGet(e.old, "alloctop") + ")"), nil
		}
		return boolVal("(>= " + as[0].T + " " + g.stGet(e.old, "alloctop") + ")"), nil
	case "contains":
		// contains(s, sub) — sub occurs in s (strings.Contains); decided for literal needles over literals and concatenations
		if len(x.Args) != 2 {
			return Val{}, fmt.Errorf("contains(s, sub)")
		}
		a, err := g.elab1(x.Args[0], e)
		if err != nil {
			return Val{}, err
		}
		b, err := g.elab1(x.Args[1], e)
		if err != nil {
			return Val{}, err
		}
		if a.S != "Str" || b.S != "Str" {
			return Val{}, fmt.Errorf("contains: string arguments expected")
		}
		for lit, name := range g.ctx.strLits {
			if name == b.T {
				g.ctx.containsNeedles[lit] = true
			}
		}
		return boolVal("(scontains " + a.T + " " + b.T + ")"), nil
	case "typeis":
		// typeis(x, "pkg.T") — dynamic type of an interface value
		if len(x.Args) != 2 || x.Args[1].Op != "str" {
			return Val{}, fmt.Errorf("typeis(x, \"T\")")
		}
		a, err := g.elab1(x.Args[0], e)
		if err != nil {
			return Val{}, err
		}
		t, err := g.prog.specType(x.Args[1].S, g.fn)
		if err != nil {
			return Val{}, err
		}
		return boolVal(fmt.Sprintf("(and ((_ is iface-mk) %s) (= (i.tag %s) %d))", a.T, a.T, g.ctx.ifaceTag(t))), nil
	case "unbox":
		// unbox(x, "T") — payload of an interface value as T
		if len(x.Args) != 2 || x.Args[1].Op != "str" {
			return Val{}, fmt.Errorf("unbox(x, \"T\")")
		}
		a, err := g.elab1(x.Args[0], e)
		if err != nil {
			return Val{}, err
		}
		t, err := g.prog.specType(x.Args[1].S, g.fn)
		if err != nil {
			return Val{}, err
		}
		s := g.ctx.sortOf(t)
		p := "(i.val " + a.T + ")"
		if s != "Int" {
			_, ub := g.ctx.boxFn(s)
			p = "(" + ub + " " + p + ")"
		}
		return Val{T: p, S: s, GoT: t}, nil
	}
	// spec functions
	if sf, ok := g.cs.SpecFuncs[x.S]; ok {
		as, err := args()
		if err != nil {
			return Val{}, err
		}
		if len(as) != len(sf.Params) {
			return Val{}, fmt.Errorf("%s expects %d arguments", x.S, len(sf.Params))
		}
		if sf.Body != nil {
			if e.depth > 16 {
				return Val{}, fmt.Errorf("pure function recursion too deep in %s", x.S)
			}
			inner := &env{names: map[string]Val{}, st: e.st, old: e.old, pre: e.pre, results: e.results, depth: e.depth + 1}
			for k, v := range g.ghostEnv {
				inner.names[k] = v
			}
			for i, p := range sf.Params {
				a := as[i]
				if a.S == "Nil" {
					t, _ := g.prog.specType(p.Type, g.fn)
					a = g.nilOf(Val{S: g.specSort(p.Type, t), GoT: t})
				}
				inner.names[p.Name] = a
			}
			return g.elab1(sf.Body, inner)
		}
		g.declareSpecFunc(sf)
		var ts []string
		for _, a := range as {
			ts = append(ts, a.T)
		}
		rt, _ := g.prog.specType(sf.Result, g.fn)
		rs := g.specSort(sf.Result, rt)
		if len(ts) == 0 {
			return Val{T: "sf_" + sf.Name, S: rs, GoT: rt}, nil
		}
		return Val{T: "(sf_" + sf.Name + " " + strings.Join(ts, " ") + ")", S: rs, GoT: rt}, nil
	}
	return Val{}, fmt.Errorf("unknown function %s", x.S)
}

func (g *gen) declareSpecFunc(sf *SpecFunc) {
	var ps []string
	for _, p := range sf.Params {
		t, _ := g.prog.specType(p.Type, g.fn)
		ps = append(ps, g.specSort(p.Type, t))
	}
	rt, _ := g.prog.specType(sf.Result, g.fn)
	g.ctx.declareOnce("sf:"+sf.Name, fmt.Sprintf("(declare-fun sf_%s (%s) %s)", sf.Name, strings.Join(ps, " "), g.specSort(sf.Result, rt)))
}

// emitAxioms asserts every axiom of the contract set (closed formulas).
func (g *gen) emitAxioms() {
	for _, ax := range g.cs.Axioms {
		// only axioms whose spec functions are in scope of this package's contract files
		e := &env{names: map[string]Val{}, st: State{}, old: State{}, pre: State{}}
		t, err := g.elabBool(ax.E, e)
		if err != nil {
			g.unsupported = append(g.unsupported, fmt.Sprintf("axiom %s: %v", ax.Name, err))
			continue
		}
		g.ctx.declareOnce("axiom:"+ax.Name, "(assert "+t+") ; axiom "+ax.Name)
	}
}


// paramInCell: the parameter is address-taken (captured by a closure, `&p`): go/ssa spills it into a cell and every
// read is a load from that cell. Such a parameter keeps meaning its entry value in contracts (its cell is heap
// state that loops and calls havoc; the code under contract does not reassign it).
func (g *gen) paramInCell(name string) bool {
	if g.fn == nil {
		return false
	}
	if g.cellParams == nil {
		g.cellParams = map[string]bool{}
		for _, b := range g.fn.Blocks {
			for _, in := range b.Instrs {
				if a, ok := in.(*ssa.Alloc); ok && a.Comment != "" {
					for _, p := range g.fn.Params {
						if p.Name() == a.Comment {
							g.cellParams[a.Comment] = true
						}
					}
				}
			}
		}
	}
	return g.cellParams[name]
}
