package main

// K6 — template semantics for generated SQL.
//
// Where the mechanism of a property is a SQL string built by fmt.Sprintf, the format literal is
// extracted from the real call in the SSA on every run, the filter around the user predicate is
// recognised (a handful of shapes; anything else is undecided), and the obligation is a lemma in
// three-valued logic between what the property demands of the filter and what the recognised
// filter computes. The meaning of NOT / IS NOT TRUE / COALESCE / WHERE is DuckDB's (assumed,
// listed as an assumption, and validated by the SQL replay on every refutation).

import (
	"bytes"
	"context"
	"encoding/json"
	"fmt"
	"go/constant"
	"os"
	"os/exec"
	"path/filepath"
	"regexp"
	"strings"
	"time"

	"golang.org/x/tools/go/ssa"
)

type TemplateCheck struct {
	Name     string `json:"name"`
	Function string `json:"function"`
	Contains string `json:"contains"` // substring identifying the Sprintf format among the function's
	Role     string `json:"role"`     // keep-filter: rows kept iff predicate is not TRUE; match-filter: rows selected iff predicate is TRUE
	Package  string `json:"package"`  // package directory for the SQL replay test
}

var whereRe = regexp.MustCompile(`(?i)WHERE\s+([^\n]*%s[^\n]*)`)

// filterShapes: recognised filter texts (whitespace-normalised, upper-cased) → SMT term over `v`
// in three-valued logic encoded as Int: 0 = FALSE, 1 = TRUE, 2 = NULL.
var filterShapes = map[string]string{
	"%S":                           "v",
	"(%S)":                         "v",
	"NOT (%S)":                     "(not3 v)",
	"(%S) IS NOT TRUE":             "(isnottrue3 v)",
	"NOT COALESCE((%S), FALSE)":    "(not3 (coalesce3 v 0))",
	"COALESCE(NOT (%S), TRUE)":     "(coalesce3 (not3 v) 1)",
	"(%S) IS TRUE":                 "(istrue3 v)",
	"NOT ((%S) IS TRUE)":           "(not3 (istrue3 v))",
}

const threeVL = `(define-fun not3 ((a Int)) Int (ite (= a 2) 2 (- 1 a)))
(define-fun isnottrue3 ((a Int)) Int (ite (= a 1) 0 1))
(define-fun istrue3 ((a Int)) Int (ite (= a 1) 1 0))
(define-fun coalesce3 ((a Int) (b Int)) Int (ite (= a 2) b a))`

func normFilter(s string) string {
	s = strings.TrimSpace(s)
	// drop a trailing alias / closing parenthesis that belongs to the enclosing expression
	s = regexp.MustCompile(`(?i)\)\s+AS\s+\w+\s*,?$`).ReplaceAllString(s, "")
	for strings.Count(s, ")") > strings.Count(s, "(") && strings.HasSuffix(s, ")") {
		s = strings.TrimSpace(strings.TrimSuffix(s, ")"))
	}
	s = strings.Join(strings.Fields(s), " ")
	return strings.ToUpper(s)
}

// templateObligations extracts the formats and builds one obligation per recognised filter.
func (p *Program) templateObligations(tc TemplateCheck) ([]*Obligation, []string) {
	fn := p.funcs[tc.Function]
	if fn == nil {
		return nil, []string{fmt.Sprintf("template %s: function %s not found (contract-stale)", tc.Name, tc.Function)}
	}
	var obls []*Obligation
	var undecided []string
	found := 0
	for _, b := range fn.Blocks {
		for _, in := range b.Instrs {
			call, ok := in.(*ssa.Call)
			if !ok || calleeName(&call.Call) != "fmt.Sprintf" || len(call.Call.Args) == 0 {
				continue
			}
			c, ok := call.Call.Args[0].(*ssa.Const)
			if !ok || c.Value == nil || c.Value.Kind() != constant.String {
				continue
			}
			format := constant.StringVal(c.Value)
			if !strings.Contains(format, tc.Contains) {
				continue
			}
			ms := whereRe.FindAllStringSubmatch(format, -1)
			if len(ms) == 0 {
				undecided = append(undecided, fmt.Sprintf("template %s: no WHERE … %%s filter found in the format", tc.Name))
				continue
			}
			for _, m := range ms {
				found++
				shape := normFilter(m[1])
				term, known := filterShapes[shape]
				name := fmt.Sprintf("%s.template.%s.%d", tc.Function, tc.Name, found)
				if !known {
					undecided = append(undecided, fmt.Sprintf("%s: unrecognised filter shape %q", name, shape))
					continue
				}
				ctx := newCtx()
				ctx.decls = append(ctx.decls, threeVL, "(declare-const v Int)")
				ctx.assume("(and (<= 0 v) (<= v 2))")
				var cond string
				switch tc.Role {
				case "keep-filter": // a row survives iff the filter is TRUE; it must survive iff the predicate is not TRUE
					cond = "(= (= " + term + " 1) (not (= v 1)))"
				case "match-filter": // a row is selected/counted iff the predicate is TRUE
					cond = "(= (= " + term + " 1) (= v 1))"
				default:
					undecided = append(undecided, fmt.Sprintf("%s: unknown role %q", name, tc.Role))
					continue
				}
				pos := p.fset.Position(call.Pos())
				obls = append(obls, &Obligation{Name: name, Kind: "template", Fn: tc.Function,
					Desc: fmt.Sprintf("filter %q must select a row %s (three-valued logic, v = value of the user predicate)", strings.TrimSpace(m[1]),
						map[string]string{"keep-filter": "iff the predicate is not TRUE", "match-filter": "iff the predicate is TRUE"}[tc.Role]),
					Pos: fmt.Sprintf("%s:%d", shortFile(pos.Filename), pos.Line), NAssume: 1, Reach: "true", Cond: cond, ctx: ctx, ModelVars: []string{"v"},
					template: &templateInfo{check: tc, filter: strings.TrimSpace(m[1])}})
			}
		}
	}
	if found == 0 && len(undecided) == 0 {
		undecided = append(undecided, fmt.Sprintf("template %s: no fmt.Sprintf format containing %q in %s (contract-stale)", tc.Name, tc.Contains, tc.Function))
	}
	return obls, undecided
}

type templateInfo struct {
	check  TemplateCheck
	filter string
}

// replayTemplate evaluates the real filter text in the real DuckDB on a three-row table whose
// predicate column is TRUE / FALSE / NULL, and compares with what the property demands.
func replayTemplate(o *Obligation, r *oblResult, cfg *PropConfig, dir, repo string) (string, bool, string) {
	os.MkdirAll(dir, 0o755)
	path := filepath.Join(dir, sanitize(o.Name)+".json")
	ti := o.template
	rf := replayFile{Property: cfg.ID, Obligation: o.Name, Kind: o.Kind, Clause: o.Desc, At: o.Pos, Solver: r.R.Solver, Answer: r.R.Answer,
		Model: r.R.Model, SolverOut: truncate(r.R.Raw, 2000)}
	write := func(v string) {
		rf.Verdict = v
		data, _ := json.MarshalIndent(rf, "", " ")
		os.WriteFile(path, data, 0o644)
	}
	filter := strings.ReplaceAll(ti.filter, "%s", "x > 3")
	// strip what belongs to the enclosing expression, as normFilter does
	filter = regexp.MustCompile(`(?i)\)\s+AS\s+\w+\s*,?$`).ReplaceAllString(strings.TrimSpace(filter), "")
	for strings.Count(filter, ")") > strings.Count(filter, "(") && strings.HasSuffix(filter, ")") {
		filter = strings.TrimSpace(strings.TrimSuffix(filter, ")"))
	}
	want := map[string]string{"keep-filter": "1,", "match-filter": "5,"}[ti.check.Role] // ids of the rows that must be selected, see below
	if ti.check.Role == "keep-filter" {
		want = "1,NULL,"
	}
	src := `package ` + filepath.Base(ti.check.Package) + `

import (
	"database/sql"
	"fmt"
	"testing"

	_ "github.com/duckdb/duckdb-go/v2"
)

func TestVerifTemplateReplay(t *testing.T) {
	db, err := sql.Open("duckdb", "")
	if err != nil {
		t.Fatal(err)
	}
	defer db.Close()
	// rows: x=1 (predicate FALSE), x=5 (predicate TRUE), x=NULL (predicate NULL); predicate is x > 3
	rows, err := db.Query(` + "`" + `SELECT COALESCE(CAST(x AS VARCHAR), 'NULL') FROM (VALUES (1), (5), (NULL)) t(x) WHERE ` + filter + ` ORDER BY x NULLS LAST` + "`" + `)
	if err != nil {
		t.Fatal(err)
	}
	got := ""
	for rows.Next() {
		var s string
		rows.Scan(&s)
		got += s + ","
	}
	fmt.Printf("VERIF-REPLAY: {\"selected\": %q, \"want\": %q}\n", got, "` + want + `")
}
`
	rf.TestSource = src
	tmp, err := os.MkdirTemp("", "govc-sqlreplay-")
	if err != nil {
		write("no replay: " + err.Error())
		return path, false, "no-replay"
	}
	defer os.RemoveAll(tmp)
	tf := filepath.Join(tmp, "zz_verif_sql_replay_test.go")
	os.WriteFile(tf, []byte(src), 0o644)
	rel := strings.TrimPrefix(ti.check.Package, "./")
	ov := map[string]map[string]string{"Replace": {filepath.Join(repo, rel, "zz_verif_sql_replay_test.go"): tf}}
	ovData, _ := json.Marshal(ov)
	ovFile := filepath.Join(tmp, "overlay.json")
	os.WriteFile(ovFile, ovData, 0o644)
	args := []string{"test", "-overlay", ovFile, "-vet=off", "-count=1", "-v", "-timeout", "120s", "-run", "^TestVerifTemplateReplay$", "./" + rel}
	rf.Command = "cd " + repo + " && go " + strings.Join(args, " ")
	cctx, cancel := context.WithTimeout(context.Background(), 15*time.Minute)
	defer cancel()
	cmd := exec.CommandContext(cctx, "go", args...)
	cmd.Dir = repo
	cmd.Env = goEnv()
	var out bytes.Buffer
	cmd.Stdout, cmd.Stderr = &out, &out
	cmd.Run()
	rf.Output = truncate(out.String(), 4000)
	var obs map[string]string
	for _, ln := range strings.Split(out.String(), "\n") {
		if i := strings.Index(ln, "VERIF-REPLAY: "); i >= 0 {
			json.Unmarshal([]byte(ln[i+len("VERIF-REPLAY: "):]), &obs)
		}
	}
	if obs == nil {
		write("SQL replay did not run; see output")
		return path, false, "not-reproduced"
	}
	if obs["selected"] != obs["want"] {
		write(fmt.Sprintf("REPRODUCED in DuckDB: with predicate `x > 3` over rows x∈{1,5,NULL} the real filter selects %q, the property demands %q", obs["selected"], obs["want"]))
		return path, true, "reproduced"
	}
	write(fmt.Sprintf("not reproduced: DuckDB selects %q as demanded (the assumed SQL semantics are wrong?)", obs["selected"]))
	return path, false, "not-reproduced"
}
