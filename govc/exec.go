package main

import (
	"fmt"
	"go/constant"
	"go/token"
	"go/types"
	"math/big"
	"strings"

	"golang.org/x/tools/go/ssa"
)

func newGen(prog *Program, fn *ssa.Function, fc *FuncContract, ctx *Ctx) *gen {
	g := &gen{ctx: ctx, prog: prog, fn: fn, fc: fc, cs: prog.cs, vals: map[ssa.Value]Val{},
		reach: map[*ssa.BasicBlock]string{}, exit: map[*ssa.BasicBlock]State{}, exitRch: map[*ssa.BasicBlock]string{},
		written: map[*ssa.BasicBlock]map[string]bool{}, counters: map[string]int{}, loopPre: map[*ssa.BasicBlock]State{},
		ghostEnv: map[string]Val{}, paramEnv: map[string]Val{}, freshRefs: map[string]bool{}, writtenOld: map[string]bool{}}
	ctx.comp("alloctop", "Int")
	ctx.comp(epochKey, "Int")
	g.fnKey = funcKey(fn)
	return g
}

// execBody symbolically executes g.fn from state st under path condition reach0.
// Parameter values must already be bound in g.vals.
func (g *gen) execBody(st State, reach0 string) {
	fn := g.fn
	if len(fn.Blocks) == 0 {
		g.unsupportedf("function %s has no body", fn)
	}
	if err := g.analyseLoops(); err != nil {
		g.unsupportedf("%v", err)
	}
	order := g.rpo()
	for _, b := range order {
		g.curBlock = b
		var in State
		var rc string
		if b.Index == 0 {
			in, rc = st.clone(), reach0
		} else {
			in, rc = g.mergePreds(b)
		}
		if li := g.loops[b]; li != nil {
			in, rc = g.loopHeader(b, li, in, rc)
		} else {
			g.bindPhis(b, false)
		}
		rcName := g.ctx.fresh(fmt.Sprintf("reach_b%d", b.Index), "Bool")
		g.ctx.assume("(= " + rcName + " " + rc + ")")
		g.reach[b] = rcName
		cur := rcName
		for _, in2 := range b.Instrs {
			cur = g.instr(in2, in, cur)
		}
		g.exit[b] = in
		g.exitRch[b] = cur
		// back edges out of b: invariant preservation
		for _, s := range b.Succs {
			if g.backEdge[[2]int{b.Index, s.Index}] {
				g.loopBackEdge(b, s, in, and(cur, g.edgeCond(b, s)))
			}
		}
	}
	g.curBlock = nil
}

// mergePreds joins the exit states of the forward predecessors of b.
func (g *gen) mergePreds(b *ssa.BasicBlock) (State, string) {
	type inc struct {
		cond string
		st   State
	}
	var incs []inc
	for _, p := range b.Preds {
		if g.backEdge[[2]int{p.Index, b.Index}] {
			continue
		}
		ps, ok := g.exit[p]
		if !ok {
			continue // unreachable predecessor
		}
		incs = append(incs, inc{and(g.exitRch[p], g.edgeCond(p, b)), ps})
	}
	if len(incs) == 0 {
		return State{}, "false"
	}
	if len(incs) == 1 {
		return incs[0].st.clone(), incs[0].cond
	}
	var conds []string
	for i := range incs {
		n := g.ctx.fresh(fmt.Sprintf("edge_b%d", b.Index), "Bool")
		g.ctx.assume("(= " + n + " " + incs[i].cond + ")")
		incs[i].cond = n
		conds = append(conds, n)
	}
	out := State{}
	keys := map[string]bool{}
	for _, i := range incs {
		for k := range i.st {
			keys[k] = true
		}
	}
	for k := range keys {
		first := g.stGet(incs[0].st, k)
		same := true
		for _, i := range incs[1:] {
			if g.stGet(i.st, k) != first {
				same = false
			}
		}
		if same {
			out[k] = first
			continue
		}
		t := g.stGet(incs[len(incs)-1].st, k)
		for i := len(incs) - 2; i >= 0; i-- {
			t = "(ite " + incs[i].cond + " " + g.stGet(incs[i].st, k) + " " + t + ")"
		}
		n := g.ctx.fresh(k, g.ctx.compSort[k])
		g.ctx.assume("(= " + n + " " + t + ")")
		out[k] = n
	}
	return out, or(conds...)
}

// bindPhis defines the phi nodes of b from its forward predecessors.
func (g *gen) bindPhis(b *ssa.BasicBlock, headerEntryOnly bool) {
	for _, in := range b.Instrs {
		phi, ok := in.(*ssa.Phi)
		if !ok {
			break
		}
		var terms, conds []string
		var anyLoc bool
		for i, p := range b.Preds {
			if g.backEdge[[2]int{p.Index, b.Index}] {
				continue
			}
			if _, ok := g.exit[p]; !ok {
				continue
			}
			v := g.val(phi.Edges[i])
			if v.L != nil {
				anyLoc = true
			}
			terms = append(terms, v.T)
			conds = append(conds, and(g.exitRch[p], g.edgeCond(p, b)))
		}
		s := g.ctx.sortOf(phi.Type())
		if anyLoc {
			g.ctx.note("phi over interior pointers (havoc)")
			g.vals[phi] = g.havocVal(phi.Name(), phi.Type(), State{}, "true")
			continue
		}
		if len(terms) == 0 {
			g.vals[phi] = Val{T: g.ctx.zeroOfSort(s), S: s, GoT: phi.Type()}
			continue
		}
		t := terms[len(terms)-1]
		for i := len(terms) - 2; i >= 0; i-- {
			if terms[i] != t {
				t = "(ite " + conds[i] + " " + terms[i] + " " + t + ")"
			}
		}
		g.vals[phi] = Val{T: g.define(g.valName(phi), s, t), S: s, GoT: phi.Type()}
		g.markFreshPhi(phi, false)
	}
}

// freshVal: the SSA value always denotes an object allocated by this execution of the function (or nil):
// allocations, slices of them, appends to them, and phis whose every incoming value is such.
func (g *gen) freshVal(v ssa.Value) bool {
	if g.freshMemo == nil {
		g.freshMemo = map[ssa.Value]int{}
	}
	switch g.freshMemo[v] {
	case 1, 2:
		return true // 1: on the current path (optimistic for cycles through phis)
	case 3:
		return false
	}
	g.freshMemo[v] = 1
	ok := false
	switch x := v.(type) {
	case *ssa.Alloc, *ssa.MakeSlice:
		ok = true
	case *ssa.Const:
		ok = x.Value == nil // nil slice / pointer
	case *ssa.Slice:
		ok = g.freshVal(x.X)
	case *ssa.Convert:
		_, toSlice := x.Type().Underlying().(*types.Slice)
		if b, isStr := x.X.Type().Underlying().(*types.Basic); toSlice && isStr && b.Info()&types.IsString != 0 {
			ok = true
		}
	case *ssa.Call:
		if b, isB := x.Call.Value.(*ssa.Builtin); isB && b.Name() == "append" && len(x.Call.Args) > 0 {
			ok = g.freshVal(x.Call.Args[0])
		}
	case *ssa.Phi:
		ok = true
		for _, e := range x.Edges {
			if !g.freshVal(e) {
				ok = false
				break
			}
		}
	}
	if ok {
		g.freshMemo[v] = 2
	} else {
		g.freshMemo[v] = 3
		// optimistic answers given while this value was in progress may be wrong: forget them
		for k, st := range g.freshMemo {
			if st == 2 {
				if _, isPhi := k.(*ssa.Phi); isPhi {
					delete(g.freshMemo, k)
				}
			}
		}
	}
	return ok
}

// markFreshPhi registers the value of a phi over fresh objects as a fresh reference; for a loop-havocked phi
// the fact that the object was allocated after function entry is stated explicitly.
func (g *gen) markFreshPhi(phi *ssa.Phi, havocked bool) {
	v, okv := g.vals[phi]
	if !okv || v.L != nil || !g.freshVal(phi) {
		return
	}
	ref := ""
	switch phi.Type().Underlying().(type) {
	case *types.Slice:
		ref = "(s.ref " + v.T + ")"
	case *types.Pointer:
		ref = v.T
	default:
		return
	}
	g.freshRefs[ref] = true
	if havocked && g.entry != nil {
		g.ctx.assume("(or (= " + ref + " 0) (>= " + ref + " " + g.stGet(g.entry, "alloctop") + "))")
	}
}

func (g *gen) valName(v ssa.Value) string {
	n := v.Name()
	if phi, ok := v.(*ssa.Phi); ok && phi.Comment != "" {
		n = phi.Comment + "_" + n
	}
	return n
}

// ------------------------------------------------------------ loops

func (g *gen) loopWritten(li *loopInfo) map[string]bool {
	out := map[string]bool{}
	for b := range li.body {
		for c := range g.dryWritten[b] {
			out[c] = true
		}
	}
	return out
}

func (g *gen) entryOr(pre State) State {
	if g.entry != nil {
		return g.entry
	}
	return pre
}

func (g *gen) loopWritesOld(li *loopInfo, c string) bool {
	for b := range li.body {
		if g.dryOldB[b][c] {
			return true
		}
	}
	return false
}

func (g *gen) loopInvariants(li *loopInfo) []Clause {
	if g.fc == nil {
		return nil
	}
	return g.fc.LoopInv[li.ordinal]
}

// loopHeader: assert invariants on entry, havoc loop-modified state, assume invariants.
func (g *gen) loopHeader(b *ssa.BasicBlock, li *loopInfo, in State, rc string) (State, string) {
	// 1. entry values of phis
	g.bindPhis(b, true)
	entryPhis := map[*ssa.Phi]Val{}
	for _, ins := range b.Instrs {
		if phi, ok := ins.(*ssa.Phi); ok {
			entryPhis[phi] = g.vals[phi]
		} else {
			break
		}
	}
	pre := in.clone()
	g.loopPre[b] = pre
	invs := g.loopInvariants(li)
	autos := g.autoInvariants(b, li)
	// 2. entry obligations
	for _, cl := range invs {
		e := g.newEnv(in, g.entryOr(pre)) // old(): function entry; pre(): the state before the loop
		e.pre = pre
		e.atBlock = b
		e.curParams = true
		t, err := g.elabBool(cl.E, e)
		if err != nil {
			// An invariant that cannot be stated for this loop any more (it names a variable the loop no longer
			// has) is DROPPED, never assumed: what it used to carry is then missing and the obligations that
			// relied on it fail, instead of the whole function going stale.
			g.ctx.note(fmt.Sprintf("loop %d invariant %s of %s dropped: %v", li.ordinal, cl.Label, g.fnKey, err))
			if strings.Contains(err.Error(), "unknown name") {
				// a local the invariant names no longer exists (renamed?): what fails downstream in this function
				// is a consequence of the contract being out of date, not evidence against the code
				g.staleNames = append(g.staleNames, fmt.Sprintf("loop %d invariant %s: %v", li.ordinal, cl.Label, err))
			}
			continue
		}
		g.obligeClause("invariant", fmt.Sprintf("%s.loop%d.inv.%s.entry", g.fnKey, li.ordinal, cl.Label), cl, rc, t)
	}
	for i, a := range autos {
		_ = i
		g.ctx.assume(implies(rc, a.at(g, entryPhis))) // auto invariants hold on entry by construction (checked below on back edge)
	}
	// 3. havoc
	st := in.clone()
	if g.dryWritten != nil {
		for c := range g.loopWritten(li) {
			if !g.importComp(c) {
				g.unsupportedf("loop writes component %s of unknown sort", c)
			}
			n := g.ctx.fresh(c+"_loop", g.ctx.compSort[c])
			if c == "alloctop" {
				g.ctx.assume("(>= " + n + " " + g.stGet(in, c) + ")")
			}
			if g.dryOldB != nil && !g.loopWritesOld(li, c) && strings.HasPrefix(g.ctx.compSort[c], "(Array Int ") && g.entry != nil {
				// the loop writes this component only on objects allocated by this execution:
				// objects that existed at function entry keep their contents
				g.ctx.assume("(forall ((r Int)) (! (=> (< r " + g.stGet(g.entry, "alloctop") + ") (= (select " + n + " r) (select " + g.stGet(in, c) + " r))) :pattern ((select " + n + " r))))")
			}
			st[c] = n
		}
	}
	for _, ins := range b.Instrs {
		phi, ok := ins.(*ssa.Phi)
		if !ok {
			break
		}
		if g.vals[phi].L != nil {
			continue
		}
		hv := g.havocVal(g.valName(phi)+"_loop", phi.Type(), st, rc)
		g.vals[phi] = hv
		g.markFreshPhi(phi, true)
	}
	// 4. assume invariants in the arbitrary iteration
	for _, a := range autos {
		cur := map[*ssa.Phi]Val{}
		for p := range entryPhis {
			cur[p] = g.vals[p]
		}
		g.ctx.assume(implies(rc, a.at(g, cur)))
	}
	for _, cl := range invs {
		e := g.newEnv(st, g.entryOr(pre))
		e.pre = pre
		e.atBlock = b
		e.curParams = true
		t, err := g.elabBool(cl.E, e)
		if err != nil {
			continue
		}
		g.ctx.assume(implies(rc, t))
	}
	return st, rc
}

func (g *gen) loopBackEdge(src, header *ssa.BasicBlock, st State, rc string) {
	li := g.loops[header]
	// values flowing along this back edge
	idx := -1
	for i, p := range header.Preds {
		if p == src {
			idx = i
		}
	}
	saved := map[*ssa.Phi]Val{}
	next := map[*ssa.Phi]Val{}
	for _, ins := range header.Instrs {
		phi, ok := ins.(*ssa.Phi)
		if !ok {
			break
		}
		saved[phi] = g.vals[phi]
		next[phi] = g.val(phi.Edges[idx])
	}
	// several back edges (continue statements): number them in block order
	suffix := ""
	if len(li.backSrcs) > 1 {
		k := 1
		for _, b := range li.backSrcs {
			if b.Index < src.Index {
				k++
			}
		}
		suffix = fmt.Sprintf(".edge%d", k)
	}
	// inferred counter bounds (`i >= init` for i += c) hold unless the counter wraps around; that is
	// assumed (machine arithmetic treated as mathematical for monotone loop counters) and recorded
	if len(g.autoInvariants(header, li)) > 0 {
		g.ctx.assumed["monotone loop counters do not wrap around (inferred bounds `i >= init` are assumed, not proved)"] = true
	}
	_ = suffix
	for p, v := range next {
		g.vals[p] = v
	}
	for _, cl := range g.loopInvariants(li) {
		e := g.newEnv(st, g.entryOr(g.loopPre[header]))
		e.pre = g.loopPre[header]
		e.atBlock = header
		e.curParams = true
		t, err := g.elabBool(cl.E, e)
		if err != nil {
			continue
		}
		g.obligeClause("invariant", fmt.Sprintf("%s.loop%d.inv.%s.preserved%s", g.fnKey, li.ordinal, cl.Label, suffix), cl, rc, t)
	}
	for p, v := range saved {
		g.vals[p] = v
	}
}

type autoInv struct {
	name string
	phi  *ssa.Phi
	op   string // ">=" or "<="
	init ssa.Value
}

func (a autoInv) at(g *gen, phis map[*ssa.Phi]Val) string {
	return "(" + a.op + " " + phis[a.phi].T + " " + g.val(a.init).T + ")"
}

// autoInvariants infers `phi >= init` for counters that only grow by a positive constant
// (and `<=` for ones that shrink). They are checked on every back edge like written invariants.
func (g *gen) autoInvariants(b *ssa.BasicBlock, li *loopInfo) []autoInv {
	var out []autoInv
	for _, ins := range b.Instrs {
		phi, ok := ins.(*ssa.Phi)
		if !ok {
			break
		}
		bt, ok := phi.Type().Underlying().(*types.Basic)
		if !ok || bt.Info()&types.IsInteger == 0 {
			continue
		}
		var init ssa.Value
		dir := 0
		okAll := true
		for i, p := range b.Preds {
			e := phi.Edges[i]
			if !g.backEdge[[2]int{p.Index, b.Index}] {
				if init != nil && init != e {
					okAll = false
				}
				init = e
				continue
			}
			d := g.stepDir(e, phi, li, 0)
			if d == 0 || (dir != 0 && d != dir) {
				okAll = false
			}
			dir = d
		}
		if !okAll || init == nil || dir == 0 {
			continue
		}
		if _, isConst := init.(*ssa.Const); !isConst {
			// init must be loop-invariant: defined outside the loop
			if ii, ok := init.(ssa.Instruction); ok && li.body[ii.Block()] {
				continue
			}
		}
		name := phi.Comment
		if name == "" {
			name = phi.Name()
		}
		if dir > 0 {
			out = append(out, autoInv{name + ".lower", phi, ">=", init})
		} else {
			out = append(out, autoInv{name + ".upper", phi, "<=", init})
		}
		// go/ssa's lowering of `for i := range s`: header has  k = phi[-1, k+1…]; k1 = k + 1; if k1 < n …  with n
		// computed before the loop and every back edge carrying k1 from the body (where k1 < n held): so k < n.
		if phi.Comment == "rangeindex" && dir > 0 {
			if n := rangeBound(b, phi); n != nil {
				if ni, isInstr := n.(ssa.Instruction); !isInstr || !li.body[ni.Block()] {
					out = append(out, autoInv{name + ".below.len", phi, "<", n})
				}
			}
		}
	}
	return out
}

// rangeBound finds n in the header pattern  k1 = phi + 1; c = k1 < n; if c.
func rangeBound(b *ssa.BasicBlock, phi *ssa.Phi) ssa.Value {
	var k1 ssa.Value
	for _, in := range b.Instrs {
		if bo, ok := in.(*ssa.BinOp); ok {
			if bo.Op == token.ADD && bo.X == phi {
				if c, ok := bo.Y.(*ssa.Const); ok && c.Value != nil && c.Int64() == 1 {
					k1 = bo
				}
			}
			if bo.Op == token.LSS && k1 != nil && bo.X == k1 {
				if ifi, ok := b.Instrs[len(b.Instrs)-1].(*ssa.If); ok && ifi.Cond == bo {
					// every back edge must carry k1
					for i, e := range phi.Edges {
						_ = i
						if c, isC := e.(*ssa.Const); isC && c.Value != nil && c.Int64() == -1 {
							continue
						}
						if e != k1 {
							return nil
						}
					}
					return bo.Y
				}
			}
		}
	}
	return nil
}

// stepDir: +1 if e is phi plus a positive constant (possibly through nested phis of such), -1 if minus.
func (g *gen) stepDir(e ssa.Value, phi *ssa.Phi, li *loopInfo, depth int) int {
	if depth > 4 {
		return 0
	}
	if e == phi {
		return 2 // unchanged; compatible with either direction
	}
	switch x := e.(type) {
	case *ssa.BinOp:
		if x.Op != token.ADD && x.Op != token.SUB {
			return 0
		}
		c, ok := x.Y.(*ssa.Const)
		if !ok || c.Value == nil || c.Value.Kind() != constant.Int {
			return 0
		}
		sgn := constant.Sign(c.Value)
		if sgn == 0 {
			return 0
		}
		if x.Op == token.SUB {
			sgn = -sgn
		}
		inner := g.stepDir(x.X, phi, li, depth+1)
		if inner == 0 {
			return 0
		}
		if inner == 2 || inner == sgn {
			return sgn
		}
		return 0
	case *ssa.Phi:
		if !li.body[x.Block()] {
			return 0
		}
		dir := 2
		for _, ed := range x.Edges {
			d := g.stepDir(ed, phi, li, depth+1)
			if d == 0 {
				return 0
			}
			if d != 2 {
				if dir != 2 && dir != d {
					return 0
				}
				dir = d
			}
		}
		return dir
	}
	return 0
}

func (g *gen) contractError(cl Clause, err error) {
	msg := fmt.Sprintf("%s:%d: %v", shortFile(cl.File), cl.Line, err)
	g.unsupported = append(g.unsupported, "contract: "+msg)
}

// obligeClause emits an obligation for a contract clause, splitting it for known findings.
func (g *gen) obligeClause(kind, name string, cl Clause, reach, cond string) {
	if g.dry {
		return
	}
	pos := token.NoPos
	var splits []FindingSplit
	if g.fc != nil {
		for _, f := range g.fc.Findings {
			if f.Clause == cl.Label || matchGlob(f.Clause, name) {
				splits = append(splits, f)
			}
		}
	}
	if len(splits) == 0 {
		o := g.oblige(kind, name, cl.Src, pos, reach, cond)
		if o != nil {
			o.Pos = fmt.Sprintf("%s:%d", shortFile(cl.File), cl.Line)
		}
		return
	}
	// O[¬W1 ∧ ¬W2 …] must hold; each O[Wi] is expected refuted
	var notW []string
	for _, f := range splits {
		e := g.newEnv(g.entry, g.entry)
		w, err := g.elabBool(f.When, e)
		if err != nil {
			g.contractError(Clause{File: cl.File, Line: cl.Line}, fmt.Errorf("finding %s: %v", f.ID, err))
			continue
		}
		notW = append(notW, not(w))
		o := &Obligation{Name: name + "[" + f.ID + "]", Kind: kind, Fn: g.fnKey, Desc: cl.Src + " WHEN " + f.Src, NAssume: len(g.ctx.assumes), Reach: reach, Cond: cond, ctx: g.ctx,
			Extra: []string{w}, ExpectSat: true, Finding: f.ID, Pos: fmt.Sprintf("%s:%d", shortFile(cl.File), cl.Line)}
		g.obls = append(g.obls, o)
	}
	o := &Obligation{Name: name, Kind: kind, Fn: g.fnKey, Desc: cl.Src, NAssume: len(g.ctx.assumes), Reach: reach, Cond: cond, ctx: g.ctx,
		Extra: notW, Pos: fmt.Sprintf("%s:%d", shortFile(cl.File), cl.Line)}
	g.obls = append(g.obls, o)
	// continuing execution may rely on the clause only outside the finding partitions
	g.ctx.assume(implies(and(append([]string{reach}, notW...)...), cond))
}

func matchGlob(pat, s string) bool {
	if !strings.Contains(pat, "*") {
		return pat == s
	}
	parts := strings.Split(pat, "*")
	if !strings.HasPrefix(s, parts[0]) {
		return false
	}
	s = s[len(parts[0]):]
	for _, p := range parts[1 : len(parts)-1] {
		i := strings.Index(s, p)
		if i < 0 {
			return false
		}
		s = s[i+len(p):]
	}
	return strings.HasSuffix(s, parts[len(parts)-1])
}

// ------------------------------------------------------------ values

func (g *gen) val(v ssa.Value) Val {
	if x, ok := g.vals[v]; ok {
		return x
	}
	switch c := v.(type) {
	case *ssa.Const:
		return g.constVal(c)
	case *ssa.Global:
		t := c.Type().(*types.Pointer).Elem()
		s := g.ctx.sortOf(t)
		comp := g.ctx.comp("G_"+sanitize(c.Pkg.Pkg.Name()+"."+c.Name()), s)
		return Val{T: "0", S: "Int", GoT: c.Type(), L: &Loc{Comp: comp, Sort: s, GoT: t}}
	case *ssa.Function:
		n := "fn_" + sanitize(c.String())
		g.ctx.declareOnce("fn:"+n, "(declare-const "+n+" Int)")
		return Val{T: n, S: "Int", GoT: c.Type()}
	case *ssa.Builtin:
		return Val{T: "0", S: "Int"}
	case *ssa.FreeVar:
		// captured variable: pointer to the outer cell; modelled as an unknown cell
		hv := g.havocVal("freevar_"+c.Name(), c.Type(), g.entryOrEmpty(), "true")
		g.vals[v] = hv
		return hv
	case *ssa.Parameter:
		g.unsupportedf("unbound parameter %s", c.Name())
	}
	g.unsupportedf("value %s (%T) used before definition", v.Name(), v)
	return Val{}
}

func (g *gen) entryOrEmpty() State {
	if g.entry != nil {
		return g.entry
	}
	return State{}
}

func (g *gen) constVal(c *ssa.Const) Val {
	t := c.Type()
	s := g.ctx.sortOf(t)
	if c.Value == nil {
		return Val{T: g.ctx.zero(t), S: s, GoT: t}
	}
	switch c.Value.Kind() {
	case constant.Bool:
		if constant.BoolVal(c.Value) {
			return Val{T: "true", S: "Bool", GoT: t}
		}
		return Val{T: "false", S: "Bool", GoT: t}
	case constant.String:
		return Val{T: g.ctx.strLit(constant.StringVal(c.Value)), S: "Str", GoT: t}
	case constant.Int:
		if s == "Float64" || s == "Float32" {
			return Val{T: fpConst(s, c.Value), S: s, GoT: t}
		}
		return Val{T: smtIntS(c.Value.ExactString()), S: "Int", GoT: t}
	case constant.Float:
		if s == "Int" {
			i, _ := constant.Int64Val(constant.ToInt(c.Value))
			return Val{T: smtIntS(fmt.Sprint(i)), S: "Int", GoT: t}
		}
		return Val{T: fpConst(s, c.Value), S: s, GoT: t}
	}
	return Val{T: g.ctx.zero(t), S: s, GoT: t}
}

func fpConst(sort string, v constant.Value) string {
	eb, sb := "11", "53"
	if sort == "Float32" {
		eb, sb = "8", "24"
	}
	f := constant.ToFloat(v)
	num := constant.Num(f)
	den := constant.Denom(f)
	neg := constant.Sign(num) < 0
	ns := strings.TrimPrefix(num.ExactString(), "-")
	ds := den.ExactString()
	if _, ok := new(big.Int).SetString(ns, 10); !ok {
		// not exactly representable as a ratio of integers (huge exponent): approximate via float64
		fv, _ := constant.Float64Val(f)
		r := new(big.Rat).SetFloat64(fv)
		if r == nil {
			return "(_ +oo " + eb + " " + sb + ")"
		}
		neg = r.Sign() < 0
		ns = new(big.Int).Abs(r.Num()).String()
		ds = r.Denom().String()
	}
	real := "(/ " + ns + ".0 " + ds + ".0)"
	if neg {
		real = "(- " + real + ")"
	}
	return "((_ to_fp " + eb + " " + sb + ") RNE " + real + ")"
}

// ------------------------------------------------------------ instructions

func (g *gen) setVal(v ssa.Value, term string) {
	s := g.ctx.sortOf(v.Type())
	g.vals[v] = Val{T: g.define(v.Name(), s, term), S: s, GoT: v.Type()}
}

func (g *gen) nopanic() bool { return g.fc != nil && g.fc.NoPanic && !g.isInline || (g.isInline && g.inheritNoPanic) }

// panicCheck emits a K2 obligation when the function is under `nopanic`; otherwise the
// condition is assumed (a panicking path is not a normal return, so contracts need not cover it).
func (g *gen) panicCheck(kind string, pos token.Pos, reach, cond, desc string) {
	if cond == "true" {
		return
	}
	if kind == "nil" && g.curBlock != nil {
		// a pointer already checked on a dominating path needs no second obligation
		if g.nilSeen == nil {
			g.nilSeen = map[string][]*ssa.BasicBlock{}
		}
		for _, b := range g.nilSeen[cond] {
			if b.Parent() == g.curBlock.Parent() && b.Dominates(g.curBlock) {
				return
			}
		}
		g.nilSeen[cond] = append(g.nilSeen[cond], g.curBlock)
	}
	if g.nopanic() {
		n := g.count("nopanic." + kind)
		g.oblige("nopanic", fmt.Sprintf("%s.nopanic.%s.%d", g.fnKey, kind, n), desc, pos, reach, cond)
		return
	}
	g.ctx.assume(implies(reach, cond))
}

func (g *gen) instr(in ssa.Instruction, st State, reach string) string {
	switch x := in.(type) {
	case *ssa.DebugRef:
		return reach
	case *ssa.Phi:
		return reach // bound at block entry
	case *ssa.BinOp:
		g.binop(x, st, reach)
	case *ssa.UnOp:
		g.unop(x, st, reach)
	case *ssa.Alloc:
		g.alloc(x, st, reach)
	case *ssa.Store:
		addr := g.redirect(g.val(x.Addr))
		v := g.materialise(g.val(x.Val), st)
		loc := g.derefLoc(addr, x.Addr.Type(), st, reach, x.Pos())
		g.storeLoc(st, loc, v, x.Val.Type())
	case *ssa.FieldAddr:
		g.fieldAddr(x, st, reach)
	case *ssa.Field:
		sv := g.val(x.X)
		stt := x.X.Type().Underlying().(*types.Struct)
		_ = stt
		g.setVal(x, "("+g.accessor(sv.S, x.Field)+" "+sv.T+")")
	case *ssa.IndexAddr:
		g.indexAddr(x, st, reach)
	case *ssa.Index:
		av := g.val(x.X)
		iv := g.val(x.Index)
		switch u := x.X.Type().Underlying().(type) {
		case *types.Array:
			g.panicCheck("index", x.Pos(), reach, fmt.Sprintf("(and (<= 0 %s) (< %s %d))", iv.T, iv.T, u.Len()), "array index in range")
			g.setVal(x, "(select "+av.T+" "+iv.T+")")
		default: // string (type-parameterised code)
			g.panicCheck("index", x.Pos(), reach, fmt.Sprintf("(and (<= 0 %s) (< %s (slen %s)))", iv.T, iv.T, av.T), "string index in range")
			g.setVal(x, "(sat "+av.T+" "+iv.T+")")
			g.ctx.assume("(and (<= 0 " + g.vals[x].T + ") (<= " + g.vals[x].T + " 255))")
		}
	case *ssa.Lookup:
		g.lookup(x, st, reach)
	case *ssa.Slice:
		g.sliceOp(x, st, reach)
	case *ssa.MakeSlice:
		g.makeSlice(x, st, reach)
	case *ssa.MakeMap:
		r := g.allocRef(st)
		k, v := mapKV(x.Type())
		dom, val, size := g.ctx.mapCompsT(x.Type())
		g.locWrite(st, &Loc{Comp: dom, Idx: []string{r}}, "((as const (Array "+g.ctx.sortOf(k)+" Bool)) false)")
		g.locWrite(st, &Loc{Comp: size, Idx: []string{r}}, "0")
		g.locWrite(st, &Loc{Comp: val, Idx: []string{r}}, "((as const (Array "+g.ctx.sortOf(k)+" "+g.ctx.sortOf(v)+")) "+g.ctx.zero(v)+")")
		g.vals[x] = Val{T: r, S: "Int", GoT: x.Type()}
	case *ssa.MapUpdate:
		g.mapUpdate(x, st, reach)
	case *ssa.MakeInterface:
		g.makeInterface(x, st)
	case *ssa.MakeClosure:
		hv := g.havocVal("closure", x.Type(), st, reach)
		g.vals[x] = hv
		g.closures()[hv.T] = x
	case *ssa.MakeChan:
		g.vals[x] = Val{T: g.allocRef(st), S: "Int", GoT: x.Type()}
	case *ssa.ChangeType:
		v := g.val(x.X)
		g.vals[x] = Val{T: v.T, S: v.S, GoT: x.Type(), L: v.L}
	case *ssa.ChangeInterface:
		v := g.val(x.X)
		g.vals[x] = Val{T: v.T, S: v.S, GoT: x.Type()}
	case *ssa.Convert:
		g.convert(x, st, reach)
	case *ssa.SliceToArrayPointer:
		g.unsupportedf("slice to array pointer conversion")
	case *ssa.TypeAssert:
		g.typeAssert(x, st, reach)
	case *ssa.Extract:
		tv := g.val(x.Tuple)
		g.setVal(x, fmt.Sprintf("(%s..%d %s)", tv.S, x.Index, tv.T))
	case *ssa.Call:
		return g.call(x, st, reach)
	case *ssa.Go:
		g.ctx.note("go statement dropped")
		// variables captured by the spawned closure may be written at any later time:
		// every later read of such a cell yields an arbitrary value
		if mc, ok := x.Call.Value.(*ssa.MakeClosure); ok {
			if g.volatile == nil {
				g.volatile = map[string]bool{}
			}
			for bi, b := range mc.Bindings {
				if cf, ok := mc.Fn.(*ssa.Function); ok && bi < len(cf.FreeVars) && onlyLoaded(cf.FreeVars[bi]) {
					continue // the goroutine only reads this variable: its value is what this function last stored
				}
				if bv := g.val(b); bv.L == nil {
					g.volatile[bv.T] = true
					if g.volatileT == nil {
						g.volatileT = map[string]types.Type{}
					}
					g.volatileT[bv.T] = b.Type()
				}
			}
			g.ctx.note("cells captured by a spawned goroutine are volatile")
		}
	case *ssa.Defer:
		g.ctx.note("defer ignored: " + calleeName(&x.Call))
	case *ssa.RunDefers:
	case *ssa.Send:
		g.ctx.note("channel send (no-op)")
		if _, ok := g.ctx.compSort["chanlen"]; ok {
			g.havocComp(st, "chanlen")
		}
	case *ssa.Select:
		if _, ok := g.ctx.compSort["chanlen"]; ok {
			g.havocComp(st, "chanlen")
		}
		g.vals[x] = g.havocVal("select", x.Type(), st, reach)
		if !x.Blocking {
			g.ctx.note("select with default: nondeterministic")
		}
		// chosen index within range
		tv := g.vals[x]
		n := len(x.States)
		lo := "0"
		if !x.Blocking {
			lo = "(- 1)"
		}
		g.ctx.assume(fmt.Sprintf("(and (<= %s (%s..0 %s)) (< (%s..0 %s) %d))", lo, tv.S, tv.T, tv.S, tv.T, n))
		// receiving from ctx.Done() means the context is cancelled: ctx.Err() is then non-nil (std.spec)
		for i, ss := range x.States {
			if call, ok := ss.Chan.(*ssa.Call); ok && calleeName(&call.Call) == "(context.Context).Done" {
				if sf, ok := g.cs.SpecFuncs["ctx_done"]; ok {
					g.declareSpecFunc(sf)
					g.ctx.assume(fmt.Sprintf("(=> (= (%s..0 %s) %d) (sf_ctx_done %s))", tv.S, tv.T, i, g.val(call.Call.Value).T))
				}
			}
		}
	case *ssa.Range:
		g.vals[x] = Val{T: g.val(x.X).T, S: g.val(x.X).S, GoT: x.X.Type()}
		if _, isMap := x.X.Type().Underlying().(*types.Map); isMap {
			// ghost: the set of keys this range loop has yielded so far (`visited` / `visitedN` in contracts)
			k, _ := mapKV(x.X.Type())
			ks := g.ctx.sortOf(k)
			comp := g.ctx.comp(fmt.Sprintf("rangevisited_%d", len(g.rangeComps)+1), "(Array "+ks+" Bool)")
			g.rangeComps = append(g.rangeComps, comp)
			if g.rangeComp == nil {
				g.rangeComp = map[*ssa.Range]string{}
				g.rangeDom0 = map[*ssa.Range]string{}
			}
			g.rangeComp[x] = comp
			dom, _, _ := g.ctx.mapCompsT(x.X.Type())
			g.rangeDom0[x] = g.define("range_dom0", "(Array "+ks+" Bool)", "(select "+g.stGet(st, dom)+" "+g.val(x.X).T+")")
			g.stSet(st, comp, "((as const (Array "+ks+" Bool)) false)")
		}
	case *ssa.Next:
		g.next(x, st, reach)
	case *ssa.Jump, *ssa.If:
	case *ssa.Return:
		g.ret(x, st, reach)
	case *ssa.Panic:
		if g.nopanic() {
			n := g.count("nopanic.explicit")
			g.oblige("nopanic", fmt.Sprintf("%s.nopanic.explicit.%d", g.fnKey, n), "explicit panic unreachable", x.Pos(), reach, "false")
		}
		return "false"
	default:
		g.unsupportedf("instruction %T", in)
	}
	return reach
}

// onlyLoaded: every use of the captured variable inside the closure is a plain load (`*fv`).
func onlyLoaded(fv *ssa.FreeVar) bool {
	refs := fv.Referrers()
	if refs == nil {
		return false
	}
	for _, r := range *refs {
		switch u := r.(type) {
		case *ssa.UnOp:
			if u.Op != token.MUL {
				return false
			}
		case *ssa.DebugRef:
		default:
			return false
		}
	}
	return true
}

func (g *gen) closures() map[string]*ssa.MakeClosure {
	if g.closureMap == nil {
		g.closureMap = map[string]*ssa.MakeClosure{}
	}
	return g.closureMap
}

func mapKV(t types.Type) (k, v types.Type) {
	m := t.Underlying().(*types.Map)
	return m.Key(), m.Elem()
}

func (g *gen) allocRef(st State) string {
	top := g.stGet(st, "alloctop")
	r := g.define("ref", "Int", top)
	g.freshRefs[r] = true
	n := g.ctx.fresh("alloctop", "Int")
	g.ctx.assume("(= " + n + " (+ " + top + " 1))")
	g.stSet(st, "alloctop", n)
	return r
}

func (g *gen) alloc(x *ssa.Alloc, st State, reach string) {
	t := x.Type().(*types.Pointer).Elem()
	r := g.allocRef(st)
	g.vals[x] = Val{T: r, S: "Int", GoT: x.Type()}
	// zero-initialise
	switch u := locUnder(t).(type) {
	case *types.Struct:
		ss := g.ctx.sortOf(t)
		for i := 0; i < u.NumFields(); i++ {
			comp := g.ctx.fieldComp(ss, u, i)
			g.locWrite(st, &Loc{Comp: comp, Idx: []string{r}}, g.ctx.zero(u.Field(i).Type()))
		}
	case *types.Array:
		es := g.ctx.sortOf(u.Elem())
		comp := g.ctx.elemComp(es)
		g.locWrite(st, &Loc{Comp: comp, Idx: []string{r}}, g.ctx.zero(t))
	default:
		s := g.ctx.sortOf(t)
		comp := g.ctx.cellComp(s)
		g.locWrite(st, &Loc{Comp: comp, Idx: []string{r}}, g.ctx.zero(t))
	}
}

// derefLoc turns a pointer value into the location it designates.
func (g *gen) derefLoc(p Val, ptrType types.Type, st State, reach string, pos token.Pos) *Loc {
	if p.L != nil {
		return p.L
	}
	pt, ok := ptrType.Underlying().(*types.Pointer)
	if !ok {
		g.unsupportedf("dereference of non-pointer %s", ptrType)
	}
	g.panicCheck("nil", pos, reach, "(not (= "+p.T+" 0))", "nil pointer dereference")
	t := pt.Elem()
	switch u := locUnder(t).(type) {
	case *types.Struct:
		return &Loc{Comp: "", Idx: []string{p.T}, Sort: g.ctx.sortOf(t), GoT: t} // whole struct at ref (Comp "" ⇒ per-field)
	case *types.Array:
		es := g.ctx.sortOf(u.Elem())
		return &Loc{Comp: g.ctx.elemComp(es), Idx: []string{p.T}, Sort: g.ctx.sortOf(t), GoT: t}
	default:
		s := g.ctx.sortOf(t)
		return &Loc{Comp: g.ctx.cellComp(s), Idx: []string{p.T}, Sort: s, GoT: t}
	}
}

// loadLoc reads the value at a location (whole structs are assembled from their field heaps).
func (g *gen) loadLoc(st State, l *Loc) string {
	if l.Comp == "" {
		u := l.GoT.Underlying().(*types.Struct)
		ss := g.ctx.sortOf(l.GoT)
		var fs []string
		for i := 0; i < u.NumFields(); i++ {
			comp := g.ctx.fieldComp(ss, u, i)
			fs = append(fs, "(select "+g.stGet(st, comp)+" "+l.Idx[0]+")")
		}
		if len(fs) == 0 {
			fs = []string{"0"}
		}
		t := "(mk-" + ss + " " + strings.Join(fs, " ") + ")"
		for _, p := range l.Path {
			if p.structSort != "" {
				t = "(" + g.accessor(p.structSort, p.field) + " " + t + ")"
			} else {
				t = "(select " + t + " " + p.index + ")"
			}
		}
		return t
	}
	return g.locRead(st, l)
}

func (g *gen) storeLoc(st State, l *Loc, v Val, vt types.Type) {
	if l.Comp == "" {
		u := l.GoT.Underlying().(*types.Struct)
		ss := g.ctx.sortOf(l.GoT)
		if len(l.Path) != 0 {
			g.unsupportedf("store through path into whole-struct location")
		}
		for i := 0; i < u.NumFields(); i++ {
			comp := g.ctx.fieldComp(ss, u, i)
			g.locWrite(st, &Loc{Comp: comp, Idx: l.Idx}, "("+g.accessor(ss, i)+" "+v.T+")")
		}
		return
	}
	g.locWrite(st, l, v.T)
}

// sentinelErr: package-level `var ErrX = errors.New(…)` values are modelled as distinct, non-nil,
// immutable constants (assumption: sentinel errors are never reassigned).
func sentinelErr(gl *ssa.Global) (string, bool) {
	pt, ok := gl.Type().(*types.Pointer)
	stdSentinel := gl.Pkg != nil && ((gl.Name() == "EOF" && gl.Pkg.Pkg.Path() == "io") ||
		((gl.Name() == "Canceled" || gl.Name() == "DeadlineExceeded") && gl.Pkg.Pkg.Path() == "context"))
	if !ok || !(strings.HasPrefix(gl.Name(), "Err") || stdSentinel) {
		return "", false
	}
	if n, ok := pt.Elem().(*types.Named); !ok || n.Obj().Name() != "error" || n.Obj().Pkg() != nil {
		return "", false
	}
	tag := 1000000
	if strings.HasPrefix(gl.Pkg.Pkg.Path(), "github.com/basekick-labs/arc") {
		tag = 1000001 // a sentinel declared by the repository itself (library code cannot return it on its own)
	}
	return fmt.Sprintf("(iface-mk %d %d)", tag, hashStr(gl.Pkg.Pkg.Path()+"."+gl.Name())), true
}

func locKey(l *Loc) string {
	var b strings.Builder
	b.WriteString(l.Comp)
	for _, i := range l.Idx {
		b.WriteString("|" + i)
	}
	for _, p := range l.Path {
		fmt.Fprintf(&b, "/%s.%d.%s", p.structSort, p.field, p.index)
	}
	return b.String()
}

// redirect: an interior location that was materialised is accessed through its object from then on.
func (g *gen) redirect(v Val) Val {
	if v.L != nil {
		if r, ok := g.materialised[locKey(v.L)]; ok {
			return Val{T: r, S: "Int", GoT: v.GoT}
		}
	}
	return v
}

// materialise turns an interior pointer (address of a struct stored by value inside another object)
// into a first-class reference when it escapes into the heap, a map, a call or a result: a fresh
// object receives a copy of the location's current contents, and later accesses through the same
// interior location are redirected to that object (so aliasing after the escape is exact).
func (g *gen) materialise(v Val, st State) Val {
	if v.L == nil {
		return v
	}
	if r := g.redirect(v); r.L == nil {
		return r
	}
	su, ok := v.L.GoT.Underlying().(*types.Struct)
	if !ok || isTimeTime(v.L.GoT) || v.L.Comp == "" {
		g.ctx.note("escaping interior pointer to a non-struct location (unknown pointer)")
		hv := g.havocVal("interior", types.NewPointer(v.L.GoT), st, "true")
		g.ctx.assume("(not (= " + hv.T + " 0))")
		return Val{T: hv.T, S: "Int", GoT: v.GoT}
	}
	cur := g.loadLoc(st, v.L)
	r := g.allocRef(st)
	ss := g.ctx.sortOf(v.L.GoT)
	for i := 0; i < su.NumFields(); i++ {
		comp := g.ctx.fieldComp(ss, su, i)
		g.locWrite(st, &Loc{Comp: comp, Idx: []string{r}}, "("+g.accessor(ss, i)+" "+cur+")")
	}
	if g.materialised == nil {
		g.materialised = map[string]string{}
	}
	g.materialised[locKey(v.L)] = r
	g.ctx.note("interior pointer materialised as an object")
	return Val{T: r, S: "Int", GoT: v.GoT}
}

func (g *gen) fieldAddr(x *ssa.FieldAddr, st State, reach string) {
	base := g.redirect(g.val(x.X))
	pt := x.X.Type().Underlying().(*types.Pointer)
	stt := pt.Elem().Underlying().(*types.Struct)
	ss := g.ctx.sortOf(pt.Elem())
	ft := stt.Field(x.Field).Type()
	fs := g.ctx.sortOf(ft)
	if base.L != nil && base.L.Comp != "" {
		// nested: field of a struct stored by value inside another location
		nl := *base.L
		nl.Path = append(append([]pathStep{}, base.L.Path...), pathStep{structSort: ss, field: x.Field})
		nl.Sort, nl.GoT = fs, ft
		g.vals[x] = Val{T: "0", S: "Int", GoT: x.Type(), L: &nl}
		return
	}
	ref := base.T
	if base.L != nil { // whole-struct loc at ref
		ref = base.L.Idx[0]
	} else {
		g.panicCheck("nil", x.Pos(), reach, "(not (= "+ref+" 0))", "nil pointer dereference (field "+stt.Field(x.Field).Name()+")")
	}
	comp := g.ctx.fieldComp(ss, stt, x.Field)
	g.vals[x] = Val{T: "0", S: "Int", GoT: x.Type(), L: &Loc{Comp: comp, Idx: []string{ref}, Sort: fs, GoT: ft}}
}

func (g *gen) indexAddr(x *ssa.IndexAddr, st State, reach string) {
	base := g.val(x.X)
	iv := g.val(x.Index)
	switch u := x.X.Type().Underlying().(type) {
	case *types.Slice:
		es := g.ctx.sortOf(u.Elem())
		g.panicCheck("index", x.Pos(), reach, "(and (<= 0 "+iv.T+") (< "+iv.T+" (s.len "+base.T+")))", "slice index in range")
		comp := g.ctx.elemComp(es)
		g.vals[x] = Val{T: "0", S: "Int", GoT: x.Type(), L: &Loc{Comp: comp, Idx: []string{"(s.ref " + base.T + ")", "(idx (s.off " + base.T + ") " + iv.T + ")"}, Sort: es, GoT: u.Elem()}}
	case *types.Pointer:
		at := u.Elem().Underlying().(*types.Array)
		es := g.ctx.sortOf(at.Elem())
		g.panicCheck("index", x.Pos(), reach, fmt.Sprintf("(and (<= 0 %s) (< %s %d))", iv.T, iv.T, at.Len()), "array index in range")
		if base.L != nil {
			nl := *base.L
			nl.Path = append(append([]pathStep{}, base.L.Path...), pathStep{index: iv.T})
			nl.Sort, nl.GoT = es, at.Elem()
			g.vals[x] = Val{T: "0", S: "Int", GoT: x.Type(), L: &nl}
			return
		}
		comp := g.ctx.elemComp(es)
		g.vals[x] = Val{T: "0", S: "Int", GoT: x.Type(), L: &Loc{Comp: comp, Idx: []string{base.T, iv.T}, Sort: es, GoT: at.Elem()}}
	default:
		g.unsupportedf("IndexAddr on %s", x.X.Type())
	}
}

func (g *gen) unop(x *ssa.UnOp, st State, reach string) {
	v := g.redirect(g.val(x.X))
	switch x.Op {
	case token.MUL: // load
		if gl, ok := x.X.(*ssa.Global); ok {
			if t, ok := sentinelErr(gl); ok {
				g.vals[x] = Val{T: t, S: "Iface", GoT: x.Type()}
				return
			}
		}
		loc := g.derefLoc(v, x.X.Type(), st, reach, x.Pos())
		if len(loc.Idx) > 0 && g.volatile[loc.Idx[0]] {
			g.vals[x] = g.havocVal(x.Name()+"_volatile", x.Type(), st, reach)
			return
		}
		t := g.loadLoc(st, loc)
		s := g.ctx.sortOf(x.Type())
		n := g.define(x.Name(), s, t)
		g.vals[x] = Val{T: n, S: s, GoT: x.Type()}
		if inv := g.typeInv(n, x.Type(), st); inv != "true" {
			g.ctx.assume(inv)
		}
	case token.NOT:
		g.setVal(x, not(v.T))
	case token.SUB:
		if v.S == "Int" {
			g.setVal(x, g.wrap("(- "+v.T+")", x.Type(), false))
		} else {
			g.setVal(x, "(fp.neg "+v.T+")")
		}
	case token.XOR:
		bt := x.Type().Underlying().(*types.Basic)
		if bt.Info()&types.IsUnsigned != 0 {
			_, hi := intRange(bt)
			g.setVal(x, "(- "+hi.String()+" "+v.T+")")
		} else {
			g.setVal(x, "(- (- "+v.T+") 1)")
		}
	case token.ARROW:
		g.vals[x] = g.havocVal("recv", x.Type(), st, reach)
		g.ctx.note("channel receive (havoc)")
		if _, ok := g.ctx.compSort["chanlen"]; ok {
			g.havocComp(st, "chanlen")
		}
	default:
		g.unsupportedf("unary op %s", x.Op)
	}
}

// wrap reduces an integer term into the range of type t. addLike: the unwrapped
// value is within one modulus of the range (cheaper ite form).
func (g *gen) wrap(term string, t types.Type, addLike bool) string {
	bt, ok := t.Underlying().(*types.Basic)
	if !ok || bt.Info()&types.IsInteger == 0 {
		return term
	}
	lo, hi := intRange(bt)
	if bt.Info()&types.IsUnsigned != 0 {
		m := new(big.Int).Add(hi, big.NewInt(1)).String()
		if addLike {
			return "(wadd_u " + term + " " + m + ")"
		}
		return "(wrap_u " + term + " " + m + ")"
	}
	h := new(big.Int).Neg(lo).String()
	if addLike {
		return "(wadd_s " + term + " " + h + ")"
	}
	return "(wrap_s " + term + " " + h + ")"
}

func (g *gen) overflowCheck(x *ssa.BinOp, raw string, reach string) {
	if g.fc == nil || !g.fc.NoOverflow || g.isInline {
		return
	}
	bt, ok := x.Type().Underlying().(*types.Basic)
	if !ok || bt.Info()&types.IsInteger == 0 {
		return
	}
	lo, hi := intRange(bt)
	n := g.count("nooverflow")
	g.oblige("nooverflow", fmt.Sprintf("%s.nooverflow.%d", g.fnKey, n), "arithmetic "+x.Op.String()+" does not overflow", x.Pos(), reach,
		"(and (<= "+smtInt(lo)+" "+raw+") (<= "+raw+" "+smtInt(hi)+"))")
}

func constInt(v ssa.Value) (*big.Int, bool) {
	c, ok := v.(*ssa.Const)
	if !ok || c.Value == nil || c.Value.Kind() != constant.Int {
		return nil, false
	}
	b, ok := new(big.Int).SetString(c.Value.ExactString(), 10)
	return b, ok
}

func (g *gen) binop(x *ssa.BinOp, st State, reach string) {
	a, b := g.val(x.X), g.val(x.Y)
	xt := x.X.Type().Underlying()
	isStr := a.S == "Str"
	isFloat := a.S == "Float64" || a.S == "Float32"
	switch x.Op {
	case token.EQL, token.NEQ:
		eq := g.equal(a, b, x.X.Type(), x.Y.Type())
		if x.Op == token.NEQ {
			eq = not(eq)
		}
		g.setVal(x, eq)
		return
	case token.LSS, token.LEQ, token.GTR, token.GEQ:
		op := map[token.Token]string{token.LSS: "<", token.LEQ: "<=", token.GTR: ">", token.GEQ: ">="}[x.Op]
		switch {
		case isStr:
			switch x.Op {
			case token.LSS:
				g.setVal(x, "(str_lt "+a.T+" "+b.T+")")
			case token.GTR:
				g.setVal(x, "(str_lt "+b.T+" "+a.T+")")
			case token.LEQ:
				g.setVal(x, "(not (str_lt "+b.T+" "+a.T+"))")
			default:
				g.setVal(x, "(not (str_lt "+a.T+" "+b.T+"))")
			}
		case isFloat:
			fop := map[string]string{"<": "fp.lt", "<=": "fp.leq", ">": "fp.gt", ">=": "fp.geq"}[op]
			g.setVal(x, "("+fop+" "+a.T+" "+b.T+")")
		default:
			g.setVal(x, "("+op+" "+a.T+" "+b.T+")")
		}
		return
	}
	if isStr {
		if x.Op == token.ADD {
			g.setVal(x, "(sconcat "+a.T+" "+b.T+")")
			return
		}
		g.unsupportedf("string op %s", x.Op)
	}
	if isFloat {
		fop := map[token.Token]string{token.ADD: "fp.add RNE", token.SUB: "fp.sub RNE", token.MUL: "fp.mul RNE", token.QUO: "fp.div RNE"}[x.Op]
		if fop == "" {
			g.unsupportedf("float op %s", x.Op)
		}
		g.setVal(x, "("+fop+" "+a.T+" "+b.T+")")
		return
	}
	if a.S == "Bool" {
		switch x.Op {
		case token.AND:
			g.setVal(x, and(a.T, b.T))
		case token.OR:
			g.setVal(x, or(a.T, b.T))
		default:
			g.unsupportedf("bool op %s", x.Op)
		}
		return
	}
	bt, _ := xt.(*types.Basic)
	unsigned := bt != nil && bt.Info()&types.IsUnsigned != 0
	switch x.Op {
	case token.ADD:
		raw := "(+ " + a.T + " " + b.T + ")"
		g.overflowCheck(x, raw, reach)
		g.setVal(x, g.wrap(raw, x.Type(), true))
	case token.SUB:
		raw := "(- " + a.T + " " + b.T + ")"
		g.overflowCheck(x, raw, reach)
		g.setVal(x, g.wrap(raw, x.Type(), true))
	case token.MUL:
		raw := "(* " + a.T + " " + b.T + ")"
		g.overflowCheck(x, raw, reach)
		g.setVal(x, g.wrap(raw, x.Type(), false))
	case token.QUO:
		g.panicCheck("divzero", x.Pos(), reach, "(not (= "+b.T+" 0))", "division by zero")
		if unsigned {
			g.setVal(x, "(div "+a.T+" "+b.T+")")
		} else {
			g.setVal(x, g.wrap("(tdiv "+a.T+" "+b.T+")", x.Type(), true))
		}
	case token.REM:
		g.panicCheck("divzero", x.Pos(), reach, "(not (= "+b.T+" 0))", "division by zero")
		if unsigned {
			g.setVal(x, "(mod "+a.T+" "+b.T+")")
		} else {
			g.setVal(x, "(tmod "+a.T+" "+b.T+")")
		}
	case token.SHL:
		if k, ok := constInt(x.Y); ok && k.IsInt64() && k.Int64() < 64 {
			p := new(big.Int).Lsh(big.NewInt(1), uint(k.Int64()))
			g.setVal(x, g.wrap("(* "+a.T+" "+p.String()+")", x.Type(), false))
		} else {
			g.ctx.declareOnce("shl", "(declare-fun shl_u (Int Int) Int)")
			hv := g.havocVal("shl", x.Type(), st, reach)
			g.ctx.assume("(= " + hv.T + " (shl_u " + a.T + " " + b.T + "))")
			g.vals[x] = hv
		}
	case token.SHR:
		if k, ok := constInt(x.Y); ok && k.IsInt64() && k.Int64() < 64 {
			p := new(big.Int).Lsh(big.NewInt(1), uint(k.Int64()))
			g.setVal(x, "(div "+a.T+" "+p.String()+")")
		} else {
			g.ctx.declareOnce("shr", "(declare-fun shr_u (Int Int) Int)")
			hv := g.havocVal("shr", x.Type(), st, reach)
			g.ctx.assume("(= " + hv.T + " (shr_u " + a.T + " " + b.T + "))")
			g.vals[x] = hv
		}
	case token.AND:
		if k, ok := constInt(x.Y); ok && isMask(k) {
			g.setVal(x, "(mod "+a.T+" "+new(big.Int).Add(k, big.NewInt(1)).String()+")")
		} else if k, ok := constInt(x.X); ok && isMask(k) {
			g.setVal(x, "(mod "+b.T+" "+new(big.Int).Add(k, big.NewInt(1)).String()+")")
		} else {
			hv := g.havocVal("and", x.Type(), st, reach)
			g.ctx.assume("(= " + hv.T + " (bit_and " + a.T + " " + b.T + "))")
			g.vals[x] = hv
		}
	case token.OR:
		hv := g.havocVal("or", x.Type(), st, reach)
		g.ctx.assume("(= " + hv.T + " (bit_or " + a.T + " " + b.T + "))")
		g.vals[x] = hv
	case token.XOR:
		hv := g.havocVal("xor", x.Type(), st, reach)
		g.ctx.assume("(= " + hv.T + " (bit_xor " + a.T + " " + b.T + "))")
		g.vals[x] = hv
	case token.AND_NOT:
		g.ctx.declareOnce("andnot", "(declare-fun bit_andnot (Int Int) Int)")
		hv := g.havocVal("andnot", x.Type(), st, reach)
		g.ctx.assume("(= " + hv.T + " (bit_andnot " + a.T + " " + b.T + "))")
		g.vals[x] = hv
	default:
		g.unsupportedf("binary op %s", x.Op)
	}
}

func isMask(k *big.Int) bool {
	if k.Sign() <= 0 {
		return false
	}
	n := new(big.Int).Add(k, big.NewInt(1))
	return new(big.Int).And(n, k).Sign() == 0
}

// equal builds Go's == for two values.
func (g *gen) equal(a, b Val, ta, tb types.Type) string {
	if a.S == "Slice" || b.S == "Slice" {
		// only comparison with nil is legal
		if isNilConst(b) || b.T == "(mk-slice 0 0 0 0)" {
			return "(= (s.ref " + a.T + ") 0)"
		}
		return "(= (s.ref " + b.T + ") 0)"
	}
	if a.S == "Float64" || a.S == "Float32" {
		return "(fp.eq " + a.T + " " + b.T + ")"
	}
	if a.S != b.S {
		// interface vs concrete comparisons: box the concrete side
		if a.S == "Iface" && b.S != "Iface" {
			return "(= " + a.T + " " + g.box(b, tb) + ")"
		}
		if b.S == "Iface" && a.S != "Iface" {
			return "(= " + g.box(a, ta) + " " + b.T + ")"
		}
	}
	if a.L != nil || b.L != nil {
		g.ctx.note("comparison of interior pointers (havoc)")
		return g.ctx.fresh("ptrcmp", "Bool")
	}
	return "(= " + a.T + " " + b.T + ")"
}

func isNilConst(v Val) bool { return v.T == "0" || v.T == "iface-nil" || v.T == "(mk-slice 0 0 0 0)" }

func (g *gen) box(v Val, t types.Type) string {
	if v.S == "Iface" {
		return v.T
	}
	tag := g.ctx.ifaceTag(t)
	payload := v.T
	if v.S != "Int" {
		bx, _ := g.ctx.boxFn(v.S)
		payload = "(" + bx + " " + v.T + ")"
	}
	return fmt.Sprintf("(iface-mk %d %s)", tag, payload)
}

func (g *gen) makeInterface(x *ssa.MakeInterface, st State) {
	v := g.val(x.X)
	if v.L != nil {
		// pointer to an interior location boxed into an interface: remember the location for havoc at calls
		hv := g.havocVal("ifaceptr", x.Type(), st, "true")
		g.ctx.assume("(not (= " + hv.T + " iface-nil))")
		g.boxedLocs()[hv.T] = v
		g.vals[x] = hv
		return
	}
	t := g.define(x.Name(), "Iface", g.box(v, x.X.Type()))
	g.vals[x] = Val{T: t, S: "Iface", GoT: x.Type()}
	g.boxedLocs()[t] = Val{T: v.T, S: v.S, GoT: x.X.Type()}
}

func (g *gen) boxedLocs() map[string]Val {
	if g.boxed == nil {
		g.boxed = map[string]Val{}
	}
	return g.boxed
}

func (g *gen) typeAssert(x *ssa.TypeAssert, st State, reach string) {
	v := g.val(x.X)
	if _, isIface := x.AssertedType.Underlying().(*types.Interface); isIface {
		// interface-to-interface: succeeds iff dynamic type implements it — abstract
		okc := g.ctx.fresh("implements", "Bool")
		g.ctx.assume("(=> " + okc + " (not (= " + v.T + " iface-nil)))")
		if x.CommaOk {
			ts := g.ctx.tupleSortOf([]string{"Iface", "Bool"})
			g.vals[x] = Val{T: g.define(x.Name(), ts, "(mk-"+ts+" (ite "+okc+" "+v.T+" iface-nil) "+okc+")"), S: ts, GoT: x.Type()}
		} else {
			g.panicCheck("typeassert", x.Pos(), reach, okc, "interface conversion")
			g.vals[x] = Val{T: v.T, S: "Iface", GoT: x.Type()}
		}
		return
	}
	tag := g.ctx.ifaceTag(x.AssertedType)
	s := g.ctx.sortOf(x.AssertedType)
	okc := fmt.Sprintf("(and ((_ is iface-mk) %s) (= (i.tag %s) %d))", v.T, v.T, tag)
	payload := "(i.val " + v.T + ")"
	if s != "Int" {
		_, ub := g.ctx.boxFn(s)
		payload = "(" + ub + " " + payload + ")"
	}
	if x.CommaOk {
		ts := g.ctx.tupleSortOf([]string{s, "Bool"})
		okn := g.define(x.Name()+"_ok", "Bool", okc)
		g.vals[x] = Val{T: g.define(x.Name(), ts, "(mk-"+ts+" (ite "+okn+" "+payload+" "+g.ctx.zero(x.AssertedType)+") "+okn+")"), S: ts, GoT: x.Type()}
		if inv := g.typeInv(payload, x.AssertedType, st); inv != "true" {
			g.ctx.assume(implies(okn, inv))
		}
		return
	}
	g.panicCheck("typeassert", x.Pos(), reach, okc, "interface conversion to "+shortType(x.AssertedType))
	g.setVal(x, payload)
	if inv := g.typeInv(g.vals[x].T, x.AssertedType, st); inv != "true" {
		g.ctx.assume(implies(reach, inv))
	}
}

func (g *gen) lookup(x *ssa.Lookup, st State, reach string) {
	mv := g.val(x.X)
	kv := g.val(x.Index)
	if mv.S == "Str" {
		g.panicCheck("index", x.Pos(), reach, "(and (<= 0 "+kv.T+") (< "+kv.T+" (slen "+mv.T+")))", "string index in range")
		g.setVal(x, "(sat "+mv.T+" "+kv.T+")")
		g.ctx.assume("(and (<= 0 " + g.vals[x].T + ") (<= " + g.vals[x].T + " 255))")
		return
	}
	k, v := mapKV(x.X.Type())
	ks, vs := g.ctx.sortOf(k), g.ctx.sortOf(v)
	key := kv.T
	if ks == "Iface" && kv.S != "Iface" {
		key = g.box(kv, x.Index.Type())
	}
	dom, val, _ := g.ctx.mapCompsT(x.X.Type())
	in := "(select (select " + g.stGet(st, dom) + " " + mv.T + ") " + key + ")"
	// a nil map reads as empty
	in = "(and (not (= " + mv.T + " 0)) " + in + ")"
	got := "(select (select " + g.stGet(st, val) + " " + mv.T + ") " + key + ")"
	inN := g.define(x.Name()+"_ok", "Bool", in)
	// convention (mapWF): the value array holds the zero value outside the key set, so a read is a plain select
	g.mapWF(st, x.X.Type())
	valT := got
	if x.CommaOk {
		ts := g.ctx.tupleSortOf([]string{vs, "Bool"})
		g.vals[x] = Val{T: g.define(x.Name(), ts, "(mk-"+ts+" "+valT+" "+inN+")"), S: ts, GoT: x.Type()}
		if inv := g.typeInv(got, v, st); inv != "true" {
			g.ctx.assume(implies(inN, inv))
		}
		return
	}
	g.setVal(x, valT)
	if inv := g.typeInv(g.vals[x].T, v, st); inv != "true" {
		g.ctx.assume(inv)
	}
}

// mapWF states the modelling convention for the current (key-set, value) arrays of a map sort: outside
// the key set — and for the nil map — the value array holds the zero value. It holds for the initial and
// every havoc'd heap by convention (those entries are unobservable) and is preserved by make, update and
// delete as modelled here; it lets m[k] be a plain array read in programs, contracts and quantifier patterns.
func (g *gen) mapWF(st State, mapT types.Type) {
	mt := mapT.Underlying().(*types.Map)
	ks, vt := g.ctx.sortOf(mt.Key()), mt.Elem()
	dom, val, _ := g.ctx.mapCompsT(mapT)
	d, v := g.stGet(st, dom), g.stGet(st, val)
	key := "mapwf:" + d + "|" + v
	if g.ctx.declSeen[key] {
		return
	}
	g.ctx.declSeen[key] = true
	g.ctx.assume("(forall ((m Int) (k " + ks + ")) (! (=> (not (and (not (= m 0)) (select (select " + d + " m) k))) (= (select (select " + v + " m) k) " + g.ctx.zero(vt) + ")) :pattern ((select (select " + v + " m) k))))")
}

func (g *gen) mapUpdate(x *ssa.MapUpdate, st State, reach string) {
	mv := g.val(x.Map)
	kv := g.val(x.Key)
	vv := g.materialise(g.val(x.Value), st)
	k, v := mapKV(x.Map.Type())
	ks, vs := g.ctx.sortOf(k), g.ctx.sortOf(v)
	key := kv.T
	if ks == "Iface" && kv.S != "Iface" {
		key = g.box(kv, x.Key.Type())
	}
	valT := vv.T
	if vs == "Iface" && vv.S != "Iface" {
		valT = g.box(vv, x.Value.Type())
	}
	g.panicCheck("nilmap", x.Pos(), reach, "(not (= "+mv.T+" 0))", "assignment to entry in nil map")
	dom, val, size := g.ctx.mapCompsT(x.Map.Type())
	was := "(select (select " + g.stGet(st, dom) + " " + mv.T + ") " + key + ")"
	g.locWrite(st, &Loc{Comp: size, Idx: []string{mv.T}}, "(+ (select "+g.stGet(st, size)+" "+mv.T+") (ite "+was+" 0 1))")
	g.locWrite(st, &Loc{Comp: dom, Idx: []string{mv.T, key}}, "true")
	g.locWrite(st, &Loc{Comp: val, Idx: []string{mv.T, key}}, valT)
}

func (g *gen) next(x *ssa.Next, st State, reach string) {
	rng := x.Iter.(*ssa.Range)
	iter := g.val(rng.X)
	okc := g.ctx.fresh("next_ok", "Bool")
	if x.IsString {
		ts := g.ctx.sortOf(x.Type())
		idx := g.ctx.fresh("next_idx", "Int")
		r := g.ctx.fresh("next_rune", "Int")
		g.ctx.assume("(=> " + okc + " (and (<= 0 " + idx + ") (< " + idx + " (slen " + iter.T + ")) (<= 0 " + r + ") (<= " + r + " 1114111) (=> (< " + r + " 128) (= " + r + " (sat " + iter.T + " " + idx + ")))))")
		g.ctx.note("range over string: positions abstracted")
		g.vals[x] = Val{T: "(mk-" + ts + " " + okc + " " + idx + " " + r + ")", S: ts, GoT: x.Type()}
		return
	}
	k, v := mapKV(rng.X.Type())
	ks, vs := g.ctx.sortOf(k), g.ctx.sortOf(v)
	dom, val, _ := g.ctx.mapCompsT(rng.X.Type())
	key := g.ctx.fresh("next_key", ks)
	if inv := g.typeInv(key, k, st); inv != "true" {
		g.ctx.assume(inv)
	}
	g.ctx.assume("(=> " + okc + " (and (not (= " + iter.T + " 0)) (select (select " + g.stGet(st, dom) + " " + iter.T + ") " + key + ")))")
	vt := "(select (select " + g.stGet(st, val) + " " + iter.T + ") " + key + ")"
	vn := g.define("next_val", vs, vt)
	if inv := g.typeInv(vn, v, st); inv != "true" {
		g.ctx.assume(implies(okc, inv))
	}
	tt := x.Type().(*types.Tuple)
	ts := g.ctx.sortOf(tt)
	// tuple component sorts may be "invalid" (blank) → Int
	kT, vT := key, vn
	if g.ctx.sortOf(tt.At(1).Type()) != ks {
		kT = g.ctx.zeroOfSort(g.ctx.sortOf(tt.At(1).Type()))
	}
	if g.ctx.sortOf(tt.At(2).Type()) != vs {
		vT = g.ctx.zeroOfSort(g.ctx.sortOf(tt.At(2).Type()))
	}
	g.vals[x] = Val{T: "(mk-" + ts + " " + okc + " " + kT + " " + vT + ")", S: ts, GoT: x.Type()}
	g.lastNextKey = key
	if comp, ok := g.rangeComp[rng]; ok {
		// a key is yielded at most once; when the loop ends, every key that was in the map when the loop
		// started and still is has been yielded (Go's guarantee for entries neither added nor removed meanwhile)
		cur := g.stGet(st, comp)
		g.ctx.assume("(=> " + okc + " (not (select " + cur + " " + key + ")))")
		domNow := "(select " + g.stGet(st, dom) + " " + iter.T + ")"
		g.ctx.assume("(=> (and (not " + okc + ") (not (= " + iter.T + " 0))) (forall ((k " + ks + ")) (! (=> (and (select " + g.rangeDom0[rng] + " k) (select " + domNow + " k)) (select " + cur + " k)) :pattern ((select " + cur + " k)) :pattern ((select " + domNow + " k)))))")
		g.stSet(st, comp, g.define("range_visited", "(Array "+ks+" Bool)", "(ite "+okc+" (store "+cur+" "+key+" true) "+cur+")"))
	}
}

func (g *gen) sliceOp(x *ssa.Slice, st State, reach string) {
	base := g.val(x.X)
	lo, hi, mx := "0", "", ""
	if x.Low != nil {
		lo = g.val(x.Low).T
	}
	switch u := x.X.Type().Underlying().(type) {
	case *types.Basic: // string
		hi = "(slen " + base.T + ")"
		if x.High != nil {
			hi = g.val(x.High).T
		}
		g.panicCheck("slice", x.Pos(), reach, "(and (<= 0 "+lo+") (<= "+lo+" "+hi+") (<= "+hi+" (slen "+base.T+")))", "string slice bounds")
		if x.Low == nil && x.High == nil {
			g.vals[x] = Val{T: base.T, S: "Str", GoT: x.Type()}
			return
		}
		g.setVal(x, "(ssub "+base.T+" "+lo+" "+hi+")")
	case *types.Slice:
		hi = "(s.len " + base.T + ")"
		if x.High != nil {
			hi = g.val(x.High).T
		}
		mx = "(s.cap " + base.T + ")"
		if x.Max != nil {
			mx = g.val(x.Max).T
		}
		cond := "(and (<= 0 " + lo + ") (<= " + lo + " " + hi + ") (<= " + hi + " " + mx + ") (<= " + mx + " (s.cap " + base.T + ")))"
		g.panicCheck("slice", x.Pos(), reach, cond, "slice bounds")
		g.setVal(x, "(mk-slice (s.ref "+base.T+") (+ (s.off "+base.T+") "+lo+") (- "+hi+" "+lo+") (- "+mx+" "+lo+"))")
		if g.freshRefs["(s.ref "+base.T+")"] {
			g.freshRefs["(s.ref "+g.vals[x].T+")"] = true
		}
	case *types.Pointer: // *[N]T
		at := u.Elem().Underlying().(*types.Array)
		n := fmt.Sprint(at.Len())
		hi = n
		if x.High != nil {
			hi = g.val(x.High).T
		}
		mx = n
		if x.Max != nil {
			mx = g.val(x.Max).T
		}
		if base.L != nil {
			g.unsupportedf("slicing an interior array")
		}
		cond := "(and (<= 0 " + lo + ") (<= " + lo + " " + hi + ") (<= " + hi + " " + mx + ") (<= " + mx + " " + n + "))"
		g.panicCheck("slice", x.Pos(), reach, cond, "array slice bounds")
		g.setVal(x, "(mk-slice "+base.T+" "+lo+" (- "+hi+" "+lo+") (- "+mx+" "+lo+"))")
		if g.freshRefs[base.T] {
			g.freshRefs["(s.ref "+g.vals[x].T+")"] = true
		}
	default:
		g.unsupportedf("slice of %s", x.X.Type())
	}
}

func (g *gen) makeSlice(x *ssa.MakeSlice, st State, reach string) {
	ln, cp := g.val(x.Len), g.val(x.Cap)
	g.panicCheck("makeslice", x.Pos(), reach, "(and (<= 0 "+ln.T+") (<= "+ln.T+" "+cp.T+") (<= "+cp.T+" 4611686018427387904))", "makeslice: len/cap in range")
	r := g.allocRef(st)
	et := x.Type().Underlying().(*types.Slice).Elem()
	es := g.ctx.sortOf(et)
	comp := g.ctx.elemComp(es)
	g.locWrite(st, &Loc{Comp: comp, Idx: []string{r}}, "((as const (Array Int "+es+")) "+g.ctx.zero(et)+")")
	g.setVal(x, "(mk-slice "+r+" 0 "+ln.T+" "+cp.T+")")
	g.freshRefs["(s.ref "+g.vals[x].T+")"] = true
}

func (g *gen) convert(x *ssa.Convert, st State, reach string) {
	v := g.val(x.X)
	from, to := x.X.Type().Underlying(), x.Type().Underlying()
	fs, ts := g.ctx.sortOf(x.X.Type()), g.ctx.sortOf(x.Type())
	switch {
	case fs == "Int" && ts == "Int":
		fb, _ := from.(*types.Basic)
		tb, _ := to.(*types.Basic)
		if fb != nil && tb != nil && fb.Info()&types.IsInteger != 0 && tb.Info()&types.IsInteger != 0 {
			flo, fhi := intRange(fb)
			tlo, thi := intRange(tb)
			if flo.Cmp(tlo) >= 0 && fhi.Cmp(thi) <= 0 {
				g.vals[x] = Val{T: v.T, S: "Int", GoT: x.Type()}
				return
			}
			g.setVal(x, g.wrap(v.T, x.Type(), false))
			return
		}
		g.vals[x] = Val{T: v.T, S: "Int", GoT: x.Type()}
	case fs == "Str" && ts == "Slice":
		et := to.(*types.Slice).Elem()
		if g.ctx.sortOf(et) != "Int" || et.Underlying().(*types.Basic).Kind() != types.Uint8 {
			g.vals[x] = g.havocVal("runes", x.Type(), st, reach)
			g.ctx.note("[]rune conversion (havoc)")
			return
		}
		r := g.allocRef(st)
		comp := g.ctx.elemComp("Int")
		g.locWrite(st, &Loc{Comp: comp, Idx: []string{r}}, "(bytes_of "+v.T+")")
		g.setVal(x, "(mk-slice "+r+" 0 (slen "+v.T+") (slen "+v.T+"))")
		g.freshRefs["(s.ref "+g.vals[x].T+")"] = true
	case fs == "Slice" && ts == "Str":
		et := from.(*types.Slice).Elem()
		if bt, ok := et.Underlying().(*types.Basic); !ok || bt.Kind() != types.Uint8 {
			g.vals[x] = g.havocVal("str", x.Type(), st, reach)
			g.ctx.note("string([]rune) conversion (havoc)")
			return
		}
		comp := g.ctx.elemComp("Int")
		g.setVal(x, "(str_of (select "+g.stGet(st, comp)+" (s.ref "+v.T+")) (s.off "+v.T+") (s.len "+v.T+"))")
	case fs == "Int" && ts == "Str":
		hv := g.havocVal("runestr", x.Type(), st, reach)
		g.ctx.assume("(=> (and (<= 0 " + v.T + ") (< " + v.T + " 128)) (and (= (slen " + hv.T + ") 1) (= (sat " + hv.T + " 0) " + v.T + ")))")
		g.vals[x] = hv
	case fs == "Int" && (ts == "Float64" || ts == "Float32"):
		eb, sb := "11", "53"
		if ts == "Float32" {
			eb, sb = "8", "24"
		}
		g.setVal(x, "((_ to_fp "+eb+" "+sb+") RNE (to_real "+v.T+"))")
	case (fs == "Float64" || fs == "Float32") && ts == "Int":
		hv := g.havocVal("f2i", x.Type(), st, reach)
		tb := to.(*types.Basic)
		lo, hi := intRange(tb)
		r := "(fp.to_real (fp.roundToIntegral RTZ " + v.T + "))"
		g.ctx.assume("(=> (and (not (fp.isNaN " + v.T + ")) (not (fp.isInfinite " + v.T + ")) (<= (to_real " + smtInt(lo) + ") " + r + ") (<= " + r + " (to_real " + smtInt(hi) + "))) (= (to_real " + hv.T + ") " + r + "))")
		if fs == "Float64" && tb.Kind() == types.Int64 {
			// contracts of library functions returning floats speak about the truncated value via f2i()
			g.ctx.declareOnce("f2i", "(declare-fun f2i (Float64) Int)")
			g.ctx.assume("(= " + hv.T + " (f2i " + v.T + "))")
		}
		g.vals[x] = hv
	case fs == "Float32" && ts == "Float64":
		g.setVal(x, "((_ to_fp 11 53) RNE "+v.T+")")
	case fs == "Float64" && ts == "Float32":
		g.setVal(x, "((_ to_fp 8 24) RNE "+v.T+")")
	case fs == ts:
		g.vals[x] = Val{T: v.T, S: ts, GoT: x.Type(), L: v.L}
	default:
		g.vals[x] = g.havocVal("conv", x.Type(), st, reach)
		g.ctx.note("conversion " + fs + "→" + ts + " (havoc)")
	}
}

// ------------------------------------------------------------ return

func (g *gen) ret(x *ssa.Return, st State, reach string) {
	var vs []Val
	for _, r := range x.Results {
		vs = append(vs, g.materialise(g.val(r), st))
	}
	if g.fc != nil && !g.isInline && !g.dry {
		hasRet := false
		for _, gs := range g.fc.GhostSets {
			if gs.AtReturn {
				hasRet = true
			}
		}
		if hasRet {
			n := g.ghostSetsApplied
			g.applyGhostSets(false, "<return>", 0, vs, st)
			if g.ghostSetsApplied > n && g.retSetsCounted {
				g.ghostSetsApplied = n // count each `at return` assignment once, however many returns there are
			}
			g.retSetsCounted = true
		}
	}
	g.rets = append(g.rets, inlineRet{reach: reach, vals: vs, st: st.clone(), blk: x.Block()})
}
