package main

// K6c — provenance of a scanned column.
//
// Where a property's mechanism is "field F of the row struct is the stored column C" and the row is read with
// QueryRow/Query(constant SQL).Scan(&s.A, &s.B, …), the check extracts the constant SELECT text and the Scan
// destinations from the SSA, finds the position of the destination `&s.F`, and requires the select item at the
// same position to be exactly the expected column reference. Any other expression there (COALESCE with another
// source, a computed value) fails the obligation; a statement the recogniser cannot split is undecided.

import (
	"fmt"
	"go/constant"
	"go/types"
	"regexp"
	"strings"

	"golang.org/x/tools/go/ssa"
)

type ScanColumnCheck struct {
	Name     string `json:"name"`
	Function string `json:"function"`
	Field    string `json:"field"`  // struct field the column is scanned into
	Column   string `json:"column"` // expected select item, e.g. "cq.last_processed_time"
	Position int    `json:"position,omitempty"` // 1-based select item to check when the destination is not a struct field
}

var queryNames = regexp.MustCompile(`^\(\*sql\.(DB|Tx|Conn)\)\.(QueryRow|QueryRowContext|Query|QueryContext)$`)
var scanNames = regexp.MustCompile(`^\(\*sql\.(Row|Rows)\)\.Scan$`)

func selectItems(q string) ([]string, bool) {
	toks := sqlTokens(q)
	start, end := -1, -1
	for i, t := range toks {
		if t.depth == 0 && t.s == "SELECT" && start < 0 {
			start = i + 1
		}
		if t.depth == 0 && t.s == "FROM" && start >= 0 {
			end = i
			break
		}
	}
	if start < 0 || end < 0 {
		// INSERT/UPDATE/DELETE ... RETURNING a, b: the returned columns play the role of the select list
		start, end = -1, len(toks)
		for i, t := range toks {
			if t.depth == 0 && t.s == "RETURNING" {
				start = i + 1
			}
		}
		if start < 0 {
			return nil, false
		}
	}
	var items []string
	for _, it := range splitTop(toks[start:end], 0, ",") {
		var parts []string
		for _, t := range it {
			parts = append(parts, t.s)
		}
		items = append(items, strings.Join(parts, " "))
	}
	return items, true
}

func scanDestField(v ssa.Value) string {
	for i := 0; i < 4; i++ {
		switch x := v.(type) {
		case *ssa.MakeInterface:
			v = x.X
		case *ssa.ChangeType:
			v = x.X
		case *ssa.FieldAddr:
			st, ok := x.X.Type().Underlying().(*types.Pointer).Elem().Underlying().(*types.Struct)
			if !ok {
				return ""
			}
			return st.Field(x.Field).Name()
		case *ssa.Alloc:
			// a local variable (`var maxTime time.Time; row.Scan(&maxTime)`): named "local:<name>"
			if x.Comment != "" {
				return "local:" + x.Comment
			}
			return ""
		default:
			return ""
		}
	}
	return ""
}

func (p *Program) scanColumnObligations(sc ScanColumnCheck) ([]*Obligation, []string) {
	fn := p.funcs[sc.Function]
	if fn == nil {
		return nil, []string{fmt.Sprintf("scan-column %s: function %s not found (contract-stale)", sc.Name, sc.Function)}
	}
	var sql string
	var sqlPos string
	var scan *ssa.Call
	for _, b := range fn.Blocks {
		for _, in := range b.Instrs {
			call, ok := in.(*ssa.Call)
			if !ok {
				continue
			}
			name := calleeName(&call.Call)
			if queryNames.MatchString(name) && sql == "" {
				qi := 1
				if strings.HasSuffix(name, "Context") {
					qi = 2
				}
				if len(call.Call.Args) > qi {
					qs := constStrings(call.Call.Args[qi], 0)
					if len(qs) == 0 {
						// SQL built by fmt.Sprintf from a constant format: the select list is decided by the
						// format as long as no placeholder occurs before FROM
						if f, ok := sprintfFormat(call.Call.Args[qi]); ok {
							up := strings.ToUpper(f)
							if i := strings.Index(up, " FROM "); i >= 0 && !strings.Contains(f[:i], "%") {
								qs = []string{f}
							}
						}
					}
					if len(qs) > 0 && !strings.Contains(qs[0], dynTail) {
						sql = qs[0]
						pos := p.fset.Position(call.Pos())
						sqlPos = fmt.Sprintf("%s:%d", shortFile(pos.Filename), pos.Line)
					}
				}
			}
			if scanNames.MatchString(name) && scan == nil {
				scan = call
			}
		}
	}
	if sql == "" || scan == nil {
		return nil, []string{fmt.Sprintf("scan-column %s: no constant query + Scan pair found in %s", sc.Name, sc.Function)}
	}
	items, ok := selectItems(sql)
	if !ok {
		return nil, []string{fmt.Sprintf("scan-column %s: cannot split the select list of the query at %s", sc.Name, sqlPos)}
	}
	idx := -1
	if sc.Position > 0 {
		idx = sc.Position - 1
	}
	for i := 0; idx < 0 && i < len(items)+4; i++ {
		v, ok := variadicElem(scan.Call.Args[len(scan.Call.Args)-1], i, 0)
		if !ok {
			break
		}
		if scanDestField(v) == sc.Field {
			idx = i
			break
		}
	}
	if idx < 0 {
		return nil, []string{fmt.Sprintf("scan-column %s: Scan in %s has no destination &….%s", sc.Name, sc.Function, sc.Field)}
	}
	if idx >= len(items) {
		return nil, []string{fmt.Sprintf("scan-column %s: Scan destination %d has no select item (query has %d)", sc.Name, idx+1, len(items))}
	}
	var wparts []string
	for _, t := range sqlTokens(sc.Column) {
		wparts = append(wparts, t.s)
	}
	want := strings.Join(wparts, " ")
	cond := "true"
	if items[idx] != want {
		cond = "false"
	}
	ctx := newCtx()
	o := &Obligation{Name: fmt.Sprintf("%s.scan.%s", sc.Function, sc.Name), Kind: "template", Fn: sc.Function,
		Desc: fmt.Sprintf("field %s is scanned from select item %d, which must be the stored column %s (found: %s)", sc.Field, idx+1, sc.Column, strings.ToLower(items[idx])),
		Pos:  sqlPos, NAssume: 0, Reach: "true", Cond: cond, ctx: ctx}
	return []*Obligation{o}, nil
}


// sprintfFormat returns the constant format of the fmt.Sprintf call that produced v (looking through one local).
func sprintfFormat(v ssa.Value) (string, bool) {
	c, ok := v.(*ssa.Call)
	if !ok || calleeName(&c.Call) != "fmt.Sprintf" || len(c.Call.Args) == 0 {
		return "", false
	}
	k, ok := c.Call.Args[0].(*ssa.Const)
	if !ok || k.Value == nil || k.Value.Kind() != constant.String {
		return "", false
	}
	return constant.StringVal(k.Value), true
}
