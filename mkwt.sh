#!/bin/bash
# mkwt.sh <id> : scratch worktree /tmp/wt_<id> of /repo's HEAD for an independent seeding sub-agent, with the
# contract files stripped (they are comment-only and tagged, but they would tell the agent what is checked).
set -e
id="$1"; wt=/tmp/wt_$id
git -C /repo worktree remove --force $wt 2>/dev/null || true
rm -rf $wt
git -C /repo worktree add -q --detach $wt HEAD
cd $wt
find . -name zz_contracts_verif.go -delete
git -c user.name=scratch -c user.email=s@x commit -q -am "scratch: strip" 
mkdir -p seed_out
echo $wt
