#!/usr/bin/env python3
# prints the prompt for an independent seeding sub-agent: property text + scratch worktree only
import json,sys
pid=sys.argv[1]
L1,L2=(sys.argv[2],sys.argv[3]) if len(sys.argv)>3 else ('A','B')
p=[json.loads(l) for l in open('/verif/properties.jsonl') if json.loads(l)['id']==pid][0]
wt=f'/tmp/wt_{pid}'
print(f"""You are helping to evaluate a verification effort by writing realistic *property-breaking changes* (mutations) to an open-source Go project, Basekick-Labs/arc (a time-series database). You have your own scratch git worktree of the project at {wt} . Work ONLY inside {wt} (never touch /repo or /verif, never read /verif). Everything is offline: use
  export PATH=/opt/veriftools/go1.26.8/bin:$PATH GOTOOLCHAIN=local GOPROXY=off GOSUMDB=off; unset GOFLAGS
before go commands (never set GOFLAGS=-mod=mod). Cold compilation of some packages (internal/ingest, internal/api) takes 1-3 minutes; be patient, and run only the tests of the packages you touch (go test -vet=off -count=1 ./internal/<pkg>/), not the whole suite.

The property (a semantic guarantee users rely on):

ID: {p['id']}
Title: {p['title']}
Statement: {p['statement']}
Quantified over: {p['quantifier']['text']}
Code anchors (where the mechanisms live): {json.dumps(p['anchors']['mechanism'])}

Your task: produce TWO independent changes, {L1} and {L2}, to the project's non-test Go source, each of which
  1. breaks the property above (for some input / schedule / crash point / fault sequence / history),
  2. still compiles (go build ./...) and still passes the EXISTING tests of every package it touches, unedited,
  3. looks like a plausible commit a developer might make (a refactor, an optimisation, a 'simplification', an off-by-one, a reordered pair of statements, a dropped check that 'can never happen', ...) — not sabotage that ordinary use would expose at once,
  4. needs something specific to manifest: a particular interleaving, a crash or fault at a particular point, a multi-step sequence of operations, an unusual input, or two cooperating sites that each look fine alone.
{L1} and {L2} should be different in kind and touch different functions if possible. Keep each change small (a few lines to a few dozen).

For each change write a demonstration: a Go test file zz_seed_demo_{L1}_test.go (resp. _{L2}_) that lives in the package directory of the code it exercises, containing one test function (TestSeedDemo{L1}_... / TestSeedDemo{L2}_...) that PASSES on the unmodified tree and FAILS with the change applied. The demo must be deterministic, self-contained (temp dirs, no network), and finish in under 60 s.

Procedure: read the anchored code first; design the change; apply it in the worktree; run go build ./... ; run the touched packages' existing tests; run your demo with and without the change (git stash / git diff > file; git checkout -- . to undo). Produce the diffs with `git diff` from the worktree root when only that change is applied (do not include the demo test files in the diff).

Deliverables, all in {wt}/seed_out/ :
  {L1}.diff, {L2}.diff                       (git diff of each change alone, relative to the worktree root, applying cleanly with `git apply` on a clean tree)
  zz_seed_demo_{L1}_test.go, zz_seed_demo_{L2}_test.go
  meta.json  of the form {{"{L1}": {{"summary": "...what was changed and why it breaks the property...", "what_it_needs_to_manifest": "...", "files_changed": ["..."], "demo_package_dir": "internal/<pkg>", "demo_test_name": "TestSeedDemo{L1}_..."}}, "{L2}": {{...}}}}
Leave the worktree clean (git checkout -- . ; remove the demo files from package dirs) when done, keeping only seed_out/. In your final reply list the files and give a 3-line summary of each change. If after serious effort you can produce only one change that meets all the conditions, deliver that one and say so.""")
