#!/bin/bash
# seedtest.sh <property-id> <patch.diff> : apply a seeded change to /repo, run the property's quick check, undo.
set -u
id="$1"; patch="$2"
cd /repo || exit 2
if [ -n "$(git status --porcelain --untracked-files=no)" ]; then echo "repo dirty"; exit 2; fi
git apply "$patch" || { echo "patch does not apply"; exit 2; }
( cd /verif && ./check "$id" 2>&1 | grep "VIOLATION\|SUMMARY\|UNDECIDED" | cut -c1-230 )
git checkout -- . 
