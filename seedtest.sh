#!/bin/bash
# seedtest.sh <property-id> <patch.diff> : apply a seeded change to a scratch worktree of /repo's HEAD (outside /repo
# and /verif, removed afterwards), run the property's quick check against that tree, print its verdict lines.
# /repo itself is not touched, and no evidence file is written.
set -u
id="$1"; patch="$2"
export PATH=/opt/veriftools/go1.26.8/bin:$PATH GOTOOLCHAIN=local GOPROXY=off GOSUMDB=off; unset GOFLAGS
wt=$(mktemp -d /tmp/seedrepo_${id}_XXXX)
rmdir $wt
git -C /repo worktree add -q --detach $wt HEAD || exit 2
trap 'git -C /repo worktree remove --force '$wt' 2>/dev/null; rm -rf '$wt'' EXIT
( cd $wt && git apply "$patch" ) || { echo "patch does not apply"; exit 2; }
cd /verif
[ -x bin/govc ] || ./setup.sh >/dev/null
bin/govc check -prop "$id" -tier quick -repo $wt -no-evidence 2>&1 | grep "VIOLATION\|SUMMARY\|UNDECIDED\|ENGINE" | cut -c1-260
