#!/bin/bash
# selftest_benign.sh [id ...] : must-NOT-fail corpus. Behaviour-preserving edits (extracted helpers, renamed locals,
# reordered independent statements) under selftest_benign/<id>/*.diff are applied to /repo in turn; the property's
# quick check must print no VIOLATION line. Developer tool, never part of a registered check.
cd "$(dirname "$0")"
ids="$*"; [ -z "$ids" ] && ids=$(ls selftest_benign | sort -u)
fail=0
for id in $ids; do
  for p in selftest_benign/$id/*.diff; do
    [ -f "$p" ] || continue
    out=$(./seedtest.sh "$id" "$PWD/$p" 2>&1)
    if echo "$out" | grep -q "^VIOLATION\|patch does not apply\|repo dirty"; then echo "ALARM    $p"; echo "$out" | grep -v "^UNDECIDED" | tail -3; fail=1; else echo "quiet    $p"; fi
  done
done
exit $fail
